//! Engine E0 (pure): monitors for the ORSWOT set, run against the real
//! `datacake_crdt::OrSWotSet` functions. C03 (merge laws), C04 (greatest stamp
//! wins, truthful return values), C05 (diff exactness, one exchange repairs),
//! C08 local part (purge invisible, deletes stay deleted).
use std::collections::{BTreeMap, BTreeSet};
use std::time::Duration;

use datacake_crdt::{HLCTimestamp, OrSWotSet};
use rand::prelude::*;
use serde_json::{json, Value};

use crate::common::*;

pub const FORGIVENESS: Duration = Duration::from_secs(3600);

#[derive(Clone, Copy, Debug, PartialEq, Eq, Hash, PartialOrd, Ord)]
pub struct Op {
    pub key: u64,
    pub ts: HLCTimestamp,
    pub del: bool,
    pub src: usize,
}

pub fn ts(ms: u64, counter: u16, node: u8) -> HLCTimestamp {
    HLCTimestamp::new(Duration::from_millis(ms), counter, node)
}

pub fn ts_json(t: HLCTimestamp) -> Value {
    json!(format!("{}ms/c{}/n{}", t.datacake_timestamp().as_millis(), t.counter(), t.node()))
}

pub fn op_json(o: &Op) -> Value {
    json!({"key": o.key, "ts": ts_json(o.ts), "kind": if o.del {"del"} else {"ins"}, "src": o.src})
}

pub fn ts_from_json(v: &Value) -> HLCTimestamp {
    let s = v.as_str().expect("ts string");
    let mut it = s.split('/');
    let ms: u64 = it.next().unwrap().trim_end_matches("ms").parse().unwrap();
    let c: u16 = it.next().unwrap().trim_start_matches('c').parse().unwrap();
    let n: u8 = it.next().unwrap().trim_start_matches('n').parse().unwrap();
    ts(ms, c, n)
}

pub fn op_from_json(v: &Value) -> Op {
    Op {
        key: v["key"].as_u64().unwrap(),
        ts: ts_from_json(&v["ts"]),
        del: v["kind"].as_str().unwrap() == "del",
        src: v["src"].as_u64().unwrap() as usize,
    }
}

pub type Listing = (Vec<(u64, HLCTimestamp)>, Vec<(u64, HLCTimestamp)>);

/// Every live entry and every tombstone of a set with its stamp: an empty set
/// has no purge cut-off, so its diff against `s` lists all of `s`.
pub fn enumerate<const N: usize>(s: &OrSWotSet<N>) -> Listing {
    let (mut a, mut b) = OrSWotSet::<N>::default().diff(s);
    a.sort();
    b.sort();
    (a, b)
}

pub fn listing_json(l: &Listing) -> Value {
    json!({
        "live": l.0.iter().map(|(k, t)| json!([k, ts_json(*t)])).collect::<Vec<_>>(),
        "dead": l.1.iter().map(|(k, t)| json!([k, ts_json(*t)])).collect::<Vec<_>>(),
    })
}

pub fn apply<const N: usize>(s: &mut OrSWotSet<N>, op: &Op) -> bool {
    // operations through source 0 use the source-less entry points (`insert` / `delete`, what the loader
    // calls) whenever the stamp's counter is odd, the `_with_source` ones otherwise
    let plain = op.src == 0 && op.ts.counter() % 2 == 1;
    match (op.del, plain) {
        (true, true) => s.delete(op.key, op.ts),
        (false, true) => s.insert(op.key, op.ts),
        (true, false) => s.delete_with_source(op.src, op.key, op.ts),
        (false, false) => s.insert_with_source(op.src, op.key, op.ts),
    }
}

/// View of one key: (live stamp, tombstone stamp).
fn view<const N: usize>(s: &OrSWotSet<N>, key: u64) -> (Option<HLCTimestamp>, Option<HLCTimestamp>) {
    let (l, d) = enumerate(s);
    (
        l.iter().find(|e| e.0 == key).map(|e| e.1),
        d.iter().find(|e| e.0 == key).map(|e| e.1),
    )
}

/// accept/refuse decisions for any further operation: `will_apply` over the
/// key universe (+ one unused key) x stamps around every stamp present.
pub fn decision_probe<const N: usize>(s: &OrSWotSet<N>, keys: &[u64], stamps: &[HLCTimestamp]) -> Vec<bool> {
    let mut out = Vec::new();
    for &k in keys {
        for &t in stamps {
            out.push(s.will_apply(k, t));
        }
    }
    out
}

pub fn probe_stamps(present: &[HLCTimestamp], origins: &[u8]) -> Vec<HLCTimestamp> {
    let mut set = BTreeSet::new();
    for &t in present {
        let ms = t.datacake_timestamp().as_millis() as u64;
        for &o in origins {
            for d in [0i64, -4, 4, -3_600_000, -3_600_004, -3_599_996] {
                let m = ms as i64 + d;
                if m >= 0 {
                    for c in [0u16, t.counter(), t.counter().saturating_add(1)] {
                        set.insert(ts(m as u64, c, o));
                    }
                }
            }
        }
    }
    set.into_iter().collect()
}

// ---------------------------------------------------------------------------
// C04
// ---------------------------------------------------------------------------

/// Six distinct stamps inside one forgiveness window around 100 000 s: the
/// first four exercise the tie-break order (same instant: node id decides;
/// then counter; then 4 ms tick), the last two are far apart.
fn c04_pool() -> Vec<HLCTimestamp> {
    let b = 100_000_000u64;
    vec![
        ts(b, 0, 0),
        ts(b, 0, 1),
        ts(b, 1, 0),
        ts(b + 4, 0, 1),
        ts(b + 2_000_000, 0, 0),
        ts(b + 3_000_000, 0, 1),
    ]
}

struct C04Fail {
    what: &'static str,
    step: usize,
    detail: Value,
}

/// Runs one arrival sequence against the real set with the LWW model
/// alongside; returns the first disagreement.
fn c04_run<const N: usize>(ops: &[Op], keys: &[u64]) -> Option<C04Fail> {
    let mut set = OrSWotSet::<N>::default();
    let mut model: BTreeMap<u64, (HLCTimestamp, bool)> = BTreeMap::new();
    for (i, op) in ops.iter().enumerate() {
        let before: Vec<_> = keys.iter().map(|k| view(&set, *k)).collect();
        let predicted = set.will_apply(op.key, op.ts);
        let ret = apply(&mut set, op);
        let after: Vec<_> = keys.iter().map(|k| view(&set, *k)).collect();
        let ki = keys.iter().position(|k| *k == op.key).unwrap();
        let changed = before[ki] != after[ki];
        // independent oracle: tuple comparison (time@4ms, counter, node)
        let tup = |t: HLCTimestamp| (t.datacake_timestamp().as_millis() / 4, t.counter(), t.node());
        let model_changed = match model.get(&op.key) {
            None => true,
            Some((t, _)) => tup(op.ts) > tup(*t),
        };
        if model_changed {
            model.insert(op.key, (op.ts, op.del));
        }
        for (j, k) in keys.iter().enumerate() {
            if j != ki && before[j] != after[j] {
                return Some(C04Fail { what: "other-key-changed", step: i, detail: json!({"key": k}) });
            }
        }
        let expect_view = match model.get(&op.key) {
            Some((t, false)) => (Some(*t), None),
            Some((t, true)) => (None, Some(*t)),
            None => (None, None),
        };
        let mk = |what| {
            Some(C04Fail {
                what,
                step: i,
                detail: json!({
                    "op": op_json(op), "will_apply": predicted, "returned": ret, "view_changed": changed,
                    "model_says_newest": model_changed,
                    "view_after": format!("{:?}", after[ki]), "expected_view": format!("{:?}", expect_view),
                }),
            })
        };
        if after[ki] != expect_view {
            return mk("final-view-differs-from-greatest-stamp");
        }
        if ret != changed {
            return mk("return-value-untruthful");
        }
        if predicted != changed {
            return mk("will-apply-untruthful");
        }
    }
    None
}

fn c04_class(ops: &[Op], step: usize) -> &'static str {
    let op = ops[step];
    let older_same_src = ops[..step]
        .iter()
        .any(|p| p.ts.node() == op.ts.node() && p.src == op.src && p.ts > op.ts);
    if ops[..step].iter().any(|p| p.key == op.key && p.ts == op.ts && p.del == op.del) {
        "redelivered-operation"
    } else if older_same_src {
        "older-than-newest-from-same-origin-on-same-source"
    } else {
        "other"
    }
}

fn c04_case<const N: usize>(ops: &[Op], keys: &[u64], out: &mut CaseOut) {
    let mut per_key = BTreeMap::new();
    for o in ops {
        *per_key.entry(o.key).or_insert(0u32) += 1;
    }
    if per_key.values().any(|n| *n >= 2) {
        out.nontrivial = Some(hash_of(&(N, ops)));
    }
    out.count("ops_applied", ops.len() as u64);
    if let Some(f) = c04_run::<N>(ops, keys) {
        let class = c04_class(ops, f.step);
        out.violate(
            format!("C04:{}:{}", f.what, class),
            json!({"sources": N, "arrival": ops.iter().map(op_json).collect::<Vec<_>>(), "failing_step": f.step, "at": f.detail}),
        );
        out.replay = Some(json!({"mode": "seq", "sources": N, "ops": ops.iter().map(op_json).collect::<Vec<_>>()}));
    }
}

/// Exhaustive: every ordered selection of `len` distinct stamps from the pool
/// (= every multiset in every arrival permutation) x key x kind x source.
fn c04_exhaustive(report: &mut Report, args: &Args, len: usize, nsrc: usize) {
    let pool = c04_pool();
    let keys = [0u64, 1];
    let per_op = 2 * 2 * nsrc; // key x kind x source
    let mut stamp_perms: Vec<Vec<usize>> = Vec::new();
    fn rec(pool: usize, len: usize, cur: &mut Vec<usize>, out: &mut Vec<Vec<usize>>) {
        if cur.len() == len {
            out.push(cur.clone());
            return;
        }
        for i in 0..pool {
            if !cur.contains(&i) {
                cur.push(i);
                rec(pool, len, cur, out);
                cur.pop();
            }
        }
    }
    rec(pool.len(), len, &mut Vec::new(), &mut stamp_perms);
    let combos = (per_op as u64).pow(len as u32);
    let n = stamp_perms.len() as u64;
    let budget = Duration::from_secs(args.pick(120, 1500));
    let total_before = report.evaluations;
    // one "case" for run_cases = one stamp permutation; it loops over all combos
    let sub = Mutex::new(Vec::<CaseOut>::new());
    run_cases(report, n, args.threads, budget, |pi| {
        let perm = &stamp_perms[pi as usize];
        let mut local = Vec::new();
        for c in 0..combos {
            let mut ops = Vec::with_capacity(len);
            let mut x = c;
            for &si in perm.iter() {
                let sel = (x % per_op as u64) as usize;
                x /= per_op as u64;
                let key = (sel % 2) as u64;
                let del = (sel / 2) % 2 == 1;
                let src = sel / 4;
                ops.push(Op { key, ts: pool[si], del, src });
            }
            let mut out = CaseOut::default();
            if nsrc == 1 {
                c04_case::<1>(&ops, &keys, &mut out);
            } else {
                c04_case::<2>(&ops, &keys, &mut out);
            }
            if pi == 7 && c == combos / 3 {
                out.sample = Some(json!({"sources": nsrc, "arrival": ops.iter().map(op_json).collect::<Vec<_>>()}));
            }
            local.push(out);
            // re-deliveries: one operation of the sequence arrives a second time (same key, stamp and
            // kind; through any source) at any later point. Nothing may change, and both the return
            // value and will_apply must say so.
            if len <= 3 {
                for p in 0..len {
                    for q in (p + 1)..=len {
                        for src in 0..nsrc {
                            let mut again = ops.clone();
                            again.insert(q, Op { src, ..ops[p] });
                            let mut out = CaseOut::default();
                            if nsrc == 1 {
                                c04_case::<1>(&again, &keys, &mut out);
                            } else {
                                c04_case::<2>(&again, &keys, &mut out);
                            }
                            out.count("sequences_with_a_redelivery", 1);
                            local.push(out);
                        }
                    }
                }
            }
        }
        sub.lock().append(&mut local);
        CaseOut::default()
    });
    // the outer pseudo cases are not evaluations
    report.evaluations = total_before;
    for o in sub.into_inner() {
        report.absorb(o);
    }
}

use parking_lot::Mutex;

fn c04_random_ops(rng: &mut StdRng, nsrc: usize) -> Vec<Op> {
    // up to 4 origins, 3 keys, 6..14 ops, stamps distinct, whole history inside
    // 3 500 s so no op is older than the window relative to anything seen.
    let base = 200_000_000u64 + rng.gen_range(0..1_000_000u64) * 4;
    let n = rng.gen_range(6..=14);
    let origins = rng.gen_range(1..=4u8);
    let mut used = BTreeSet::new();
    let mut ops = Vec::new();
    while ops.len() < n {
        let t = if rng.gen_bool(0.3) {
            ts(base + rng.gen_range(0..4) * 4, rng.gen_range(0..3), rng.gen_range(0..origins))
        } else {
            ts(base + rng.gen_range(0..875_000u64) * 4, rng.gen_range(0..2), rng.gen_range(0..origins))
        };
        if used.insert(t) {
            ops.push(Op { key: rng.gen_range(0..3), ts: t, del: rng.gen_bool(0.45), src: rng.gen_range(0..nsrc) });
        }
    }
    // re-deliveries of the same operation (same key, stamp, kind), possibly through the other source
    if rng.gen_bool(0.4) {
        for _ in 0..rng.gen_range(1..=3) {
            let p = rng.gen_range(0..ops.len());
            let q = rng.gen_range(p + 1..=ops.len());
            let dup = Op { src: rng.gen_range(0..nsrc), ..ops[p] };
            ops.insert(q, dup);
        }
    }
    ops
}

pub fn c04(args: &Args) {
    let mut report = Report::new(
        args,
        "E0-crdt",
        "exhaustive part: every ordered selection of L distinct stamps out of a pool of 6 (same-instant/other-node, counter, 4 ms tick, far apart; all inside one forgiveness window) x {2 keys} x {insert,delete} x {sources}, applied to a fresh OrSWotSet<1> and OrSWotSet<2>; plus, for L <= 3, every re-delivery of one operation of the sequence (same key, stamp, kind; any source) at every later position; random part: 6..14 operations, <= 4 origins, 3 keys, 40 % with 1-3 re-deliveries. After EVERY operation: view of the key == LWW model (tuple order time@4ms,counter,node), return value == view changed == will_apply just before, other keys untouched. Non-trivial = at least two operations on one key; distinct = distinct (sources, arrival sequence).",
    );
    if let Some(path) = &args.replay {
        let r = read_replay(path);
        let ops: Vec<Op> = r["ops"].as_array().unwrap().iter().map(op_from_json).collect();
        let mut out = CaseOut::default();
        if r["sources"].as_u64() == Some(1) {
            c04_case::<1>(&ops, &[0, 1, 2], &mut out);
        } else {
            c04_case::<2>(&ops, &[0, 1, 2], &mut out);
        }
        report.absorb(out);
        report.finish(args);
        return;
    }
    let lens: &[usize] = if args.tier == Tier::Quick { &[1, 2, 3, 4] } else { &[1, 2, 3, 4, 5] };
    for &len in lens {
        for nsrc in [1usize, 2] {
            if len == 5 && nsrc == 2 && args.opt_u64("len5x2", 0) == 0 {
                // 6*5*4*3*2 * 8^5 = 23.6M sequences: thorough only with --len5x2 1
                if args.tier != Tier::Thorough {
                    continue;
                }
            }
            c04_exhaustive(&mut report, args, len, nsrc);
        }
    }
    report.exhaustive = !report.extra.contains_key("watchdog");
    report.extra.insert("exhaustive_lengths".into(), json!(lens));
    let n_random = args.pick(2_000_000, 30_000_000);
    let seed = args.seed;
    run_cases(&mut report, n_random, args.threads, Duration::from_secs(args.pick(60, 900)), |i| {
        let mut rng = rng_for(seed, 0xC04, i);
        let nsrc = 1 + (i % 2) as usize;
        let ops = c04_random_ops(&mut rng, nsrc);
        let mut out = CaseOut::default();
        if nsrc == 1 {
            c04_case::<1>(&ops, &[0, 1, 2], &mut out);
        } else {
            c04_case::<2>(&ops, &[0, 1, 2], &mut out);
        }
        out.count("random_sequences", 1);
        if i == 5 {
            out.sample = Some(json!({"sources": nsrc, "arrival": ops.iter().map(op_json).collect::<Vec<_>>()}));
        }
        out
    });
    report.finish(args);
}

// ---------------------------------------------------------------------------
// Replica generators shared by C03 / C05 / C08
// ---------------------------------------------------------------------------

#[derive(Clone, Copy, PartialEq, Eq, Debug)]
pub enum Regime {
    /// every replica applies, per origin, a gap-free prefix of that origin's
    /// operations in stamp order (each through any source); stamps may be
    /// hours apart
    Prefix,
    /// all stamps inside one forgiveness window; replicas apply arbitrary
    /// subsets in arbitrary order
    Window,
    /// hour-scale stamps like Prefix, but a replica may have MISSED operations of an
    /// origin (each origin's operations still arrive in stamp order): outside the
    /// convergence precondition, used only for statements that carry none (C05, first sentence)
    Gaps,
}

#[derive(Clone, Debug)]
pub struct History {
    /// per origin, in stamp order
    pub per_origin: Vec<Vec<(u64, HLCTimestamp, bool)>>,
}

pub fn gen_history(rng: &mut StdRng, regime: Regime, origins: u8, per: usize, keys: u64) -> History {
    let base = 50_000_000u64;
    let mut used = BTreeSet::new();
    let mut per_origin = Vec::new();
    for o in 0..origins {
        let mut v = Vec::new();
        let mut t = base + rng.gen_range(0..250_000u64) * 4;
        let n = rng.gen_range(1..=per);
        for _ in 0..n {
            loop {
                let step = match regime {
                    // minutes to hours apart, so cut-offs move past earlier stamps
                    Regime::Prefix | Regime::Gaps => {
                        if rng.gen_bool(0.5) {
                            rng.gen_range(1..1_500_000u64)
                        } else {
                            rng.gen_range(900_000..3_000_000u64)
                        }
                    },
                    Regime::Window => rng.gen_range(0..(600_000 / per as u64).max(1)),
                };
                t += step * 4;
                let c = rng.gen_range(0..2u16);
                let plain = ts(t, c, o);
                let mut stamp = plain;
                // same instant on another node: the node id alone decides (tie-break cases)
                if rng.gen_bool(0.15) {
                    let others: Vec<HLCTimestamp> = used
                        .iter()
                        .filter(|u: &&HLCTimestamp| u.node() != o)
                        .map(|u| ts(u.datacake_timestamp().as_millis() as u64, u.counter(), o))
                        .filter(|cand| !used.contains(cand) && v.last().map_or(true, |l: &(u64, HLCTimestamp, bool)| l.1 < *cand))
                        .collect();
                    if let Some(pick) = others.choose(rng) {
                        // in the prefix regime the origin's own stamps must keep increasing: only
                        // adopt an instant that does not lie before the step just taken
                        if regime == Regime::Window || *pick >= ts(t.saturating_sub(step * 4), 0, o) {
                            stamp = *pick;
                            if regime != Regime::Window {
                                t = pick.datacake_timestamp().as_millis() as u64;
                            }
                        }
                    }
                }
                if used.insert(stamp) {
                    v.push((rng.gen_range(0..keys), stamp, rng.gen_bool(0.45)));
                    break;
                }
            }
        }
        per_origin.push(v);
    }
    if regime == Regime::Window {
        // enforce the precondition by construction: everything within 3 590 s
        let all: Vec<u64> = per_origin.iter().flatten().map(|e| e.1.datacake_timestamp().as_millis() as u64).collect();
        let (lo, hi) = (*all.iter().min().unwrap(), *all.iter().max().unwrap());
        assert!(hi - lo < 3_590_000, "generator slip: window history spans {} ms", hi - lo);
    }
    History { per_origin }
}

pub fn history_json(h: &History) -> Value {
    json!(h
        .per_origin
        .iter()
        .map(|v| v.iter().map(|(k, t, d)| json!([k, ts_json(*t), if *d { "del" } else { "ins" }])).collect::<Vec<_>>())
        .collect::<Vec<_>>())
}

/// Builds one replica; returns the set and the applied operations in order.
pub fn build_replica<const N: usize>(rng: &mut StdRng, h: &History, regime: Regime) -> (OrSWotSet<N>, Vec<Op>) {
    let mut s = OrSWotSet::<N>::default();
    let mut applied = Vec::new();
    match regime {
        Regime::Prefix | Regime::Gaps => {
            let lens: Vec<usize> = h.per_origin.iter().map(|v| rng.gen_range(0..=v.len())).collect();
            let mut idx = vec![0usize; lens.len()];
            loop {
                let cand: Vec<usize> = (0..lens.len()).filter(|&o| idx[o] < lens[o]).collect();
                if cand.is_empty() {
                    break;
                }
                let o = *cand.choose(rng).unwrap();
                let (key, stamp, del) = h.per_origin[o][idx[o]];
                idx[o] += 1;
                if regime == Regime::Gaps && rng.gen_bool(0.35) {
                    // this operation never reached the replica
                    continue;
                }
                let op = Op { key, ts: stamp, del, src: rng.gen_range(0..N) };
                apply(&mut s, &op);
                applied.push(op);
            }
        },
        Regime::Window => {
            let mut flat: Vec<(u64, HLCTimestamp, bool)> =
                h.per_origin.iter().flatten().copied().filter(|_| rng.gen_bool(0.65)).collect();
            flat.shuffle(rng);
            for (key, stamp, del) in flat {
                let op = Op { key, ts: stamp, del, src: rng.gen_range(0..N) };
                apply(&mut s, &op);
                applied.push(op);
            }
        },
    }
    (s, applied)
}

/// Re-checks the generator's precondition on the recorded per-replica history.
pub fn precondition_holds(h: &History, applied: &[Op], regime: Regime) -> bool {
    match regime {
        Regime::Window => {
            let ms: Vec<u128> = applied.iter().map(|o| o.ts.datacake_timestamp().as_millis()).collect();
            match (ms.iter().min(), ms.iter().max()) {
                (Some(lo), Some(hi)) => hi - lo < 3_600_000,
                _ => true,
            }
        },
        Regime::Gaps => true,
        Regime::Prefix => {
            for (o, ops) in h.per_origin.iter().enumerate() {
                let mine: Vec<HLCTimestamp> = applied.iter().filter(|a| a.ts.node() as usize == o).map(|a| a.ts).collect();
                let want: Vec<HLCTimestamp> = ops.iter().take(mine.len()).map(|e| e.1).collect();
                if mine != want {
                    return false;
                }
            }
            true
        },
    }
}

fn live_of<const N: usize>(s: &OrSWotSet<N>, keys: u64) -> Vec<Option<HLCTimestamp>> {
    (0..keys).map(|k| s.get(&k).copied()).collect()
}

fn merged<const N: usize>(a: &OrSWotSet<N>, b: &OrSWotSet<N>) -> OrSWotSet<N> {
    let mut x = a.clone();
    x.merge(b.clone());
    x
}

// ---------------------------------------------------------------------------
// C03
// ---------------------------------------------------------------------------

fn full_state<const N: usize>(s: &OrSWotSet<N>, keys: u64, origins: u8) -> (Listing, Vec<bool>) {
    let l = enumerate(s);
    let present: Vec<HLCTimestamp> = l.0.iter().chain(l.1.iter()).map(|e| e.1).collect();
    let stamps = probe_stamps(&present, &(0..origins).collect::<Vec<_>>());
    let ks: Vec<u64> = (0..=keys).collect();
    (l.clone(), decision_probe(s, &ks, &stamps))
}

fn c03_laws<const N: usize>(
    a: &OrSWotSet<N>,
    b: &OrSWotSet<N>,
    c: &OrSWotSet<N>,
    keys: u64,
    origins: u8,
) -> Vec<(&'static str, Value)> {
    let mut bad = Vec::new();
    let ab = merged(a, b);
    let ba = merged(b, a);
    if live_of(&ab, keys) != live_of(&ba, keys) {
        bad.push(("commutativity", json!({"a_b": listing_json(&enumerate(&ab)), "b_a": listing_json(&enumerate(&ba))})));
    }
    let ab_c = merged(&ab, c);
    let a_bc = merged(a, &merged(b, c));
    if live_of(&ab_c, keys) != live_of(&a_bc, keys) {
        bad.push(("associativity", json!({"(ab)c": listing_json(&enumerate(&ab_c)), "a(bc)": listing_json(&enumerate(&a_bc))})));
    }
    let abb = merged(&ab, b);
    if live_of(&abb, keys) != live_of(&ab, keys) {
        bad.push(("idempotence-live", json!({"ab": listing_json(&enumerate(&ab)), "abb": listing_json(&enumerate(&abb))})));
    } else if full_state(&abb, keys, origins) != full_state(&ab, keys, origins) {
        bad.push(("remerge-changes-state", json!({"ab": listing_json(&enumerate(&ab)), "abb": listing_json(&enumerate(&abb))})));
    }
    let aa = merged(a, a);
    if full_state(&aa, keys, origins) != full_state(a, keys, origins) {
        bad.push(("self-merge-changes-state", json!({"a": listing_json(&enumerate(a)), "aa": listing_json(&enumerate(&aa))})));
    }
    // transitive exchange: b1 = B+A, c1 = C+b1, a1 = A+c1, then b1 and c1 merge a1
    let b1 = merged(b, a);
    let c1 = merged(c, &b1);
    let a1 = merged(a, &c1);
    let b2 = merged(&b1, &a1);
    let c2 = merged(&c1, &a1);
    if live_of(&a1, keys) != live_of(&b2, keys) || live_of(&a1, keys) != live_of(&c2, keys) {
        bad.push((
            "merged-replicas-distinguishable",
            json!({"a1": listing_json(&enumerate(&a1)), "b2": listing_json(&enumerate(&b2)), "c2": listing_json(&enumerate(&c2))}),
        ));
    }
    bad
}

fn c03_case<const N: usize>(seed: u64, i: u64, regime: Regime, stream: u64) -> CaseOut {
    let mut rng = rng_for(seed, stream, i);
    let keys = 3;
    let origins = 3;
    let h = gen_history(&mut rng, regime, origins, 3, keys);
    let (a, ha) = build_replica::<N>(&mut rng, &h, regime);
    let (b, hb) = build_replica::<N>(&mut rng, &h, regime);
    let (c, hc) = build_replica::<N>(&mut rng, &h, regime);
    let mut out = CaseOut::default();
    if !(precondition_holds(&h, &ha, regime) && precondition_holds(&h, &hb, regime) && precondition_holds(&h, &hc, regime)) {
        out.inconclusive = Some("generator precondition slip".into());
        return out;
    }
    let (ea, eb, ec) = (enumerate(&a), enumerate(&b), enumerate(&c));
    if ea != eb {
        out.nontrivial = Some(hash_of(&(N, &ea, &eb, &ec)));
    }
    // how often the peer had purged-range knowledge ("drop what the peer has
    // seen and no longer holds" branch of merge)
    let ab = merged(&a, &b);
    let dropped = ea.0.iter().filter(|e| !enumerate(&ab).0.iter().any(|x| x.0 == e.0) && !eb.0.iter().any(|x| x.0 == e.0) && !eb.1.iter().any(|x| x.0 == e.0)).count();
    out.count("entries_dropped_because_peer_observed_past_them", dropped as u64);
    out.count("merges_executed", 14);
    for (law, detail) in c03_laws(&a, &b, &c, keys, origins) {
        out.violate(
            format!("C03:{}:{}", law, if regime == Regime::Prefix { "gap-free-prefix" } else { "one-window" }),
            json!({"sources": N, "history": history_json(&h),
                   "a": ha.iter().map(op_json).collect::<Vec<_>>(), "b": hb.iter().map(op_json).collect::<Vec<_>>(), "c": hc.iter().map(op_json).collect::<Vec<_>>(),
                   "law": detail}),
        );
    }
    // "indistinguishable by lookups" has to survive continued operation: replicas that merged each
    // other's states are handed the same further delivery - any operation of the history, again or for
    // the first time, through any source - and must still answer lookups alike
    {
        let b1 = merged(&b, &a);
        let c1 = merged(&c, &b1);
        let a1 = merged(&a, &c1);
        let b2 = merged(&b1, &a1);
        let c2 = merged(&c1, &a1);
        'outer: for (key, stamp, del) in h.per_origin.iter().flatten() {
            for src in 0..N {
                let op = Op { key: *key, ts: *stamp, del: *del, src };
                let (mut x, mut y, mut z) = (a1.clone(), b2.clone(), c2.clone());
                apply(&mut x, &op);
                apply(&mut y, &op);
                apply(&mut z, &op);
                out.count("follow_up_deliveries_to_merged_replicas", 1);
                if live_of(&x, keys) != live_of(&y, keys) || live_of(&x, keys) != live_of(&z, keys) {
                    out.violate(
                        format!("C03:merged-replicas-distinguishable-after-the-same-further-delivery:{}", if regime == Regime::Prefix { "gap-free-prefix" } else { "one-window" }),
                        json!({"sources": N, "history": history_json(&h),
                            "a": ha.iter().map(op_json).collect::<Vec<_>>(), "b": hb.iter().map(op_json).collect::<Vec<_>>(), "c": hc.iter().map(op_json).collect::<Vec<_>>(),
                            "delivered_to_all_three": op_json(&op),
                            "a1": listing_json(&enumerate(&x)), "b2": listing_json(&enumerate(&y)), "c2": listing_json(&enumerate(&z))}),
                    );
                    break 'outer;
                }
            }
        }
    }
    if !out.violations.is_empty() {
        out.replay = Some(json!({"mode": "random", "seed": seed, "index": i, "sources": N, "regime": format!("{regime:?}"), "stream": stream}));
    }
    if i == 3 {
        out.sample = Some(json!({"regime": format!("{regime:?}"), "sources": N, "history": history_json(&h),
            "a": listing_json(&ea), "b": listing_json(&eb), "c": listing_json(&ec)}));
    }
    out
}

/// Exhaustive: 2 origins x 2 operations each over 2 keys (every key/kind
/// assignment), every replica reachable under the regime with one source,
/// every ordered triple of distinct reachable replicas.
fn c03_exhaustive(report: &mut Report, args: &Args, regime: Regime) {
    let b = 60_000_000u64;
    // interleaved stamps: o0: t0 < t2 ; o1: t1 < t3 ; hours apart for Prefix
    let gap = if regime == Regime::Prefix { 4_000_000 } else { 600_000 };
    let stamps = [ts(b, 0, 0), ts(b + gap, 0, 1), ts(b + 2 * gap, 0, 0), ts(b + 3 * gap, 0, 1)];
    let tables: Vec<u32> = (0..256).collect();
    let sub = Mutex::new(Vec::<CaseOut>::new());
    let before = report.evaluations;
    run_cases(report, tables.len() as u64, args.threads, Duration::from_secs(args.pick(120, 900)), |ti| {
        let t = tables[ti as usize];
        let opk = |j: usize| -> (u64, bool) { (((t >> (2 * j)) & 1) as u64, ((t >> (2 * j + 1)) & 1) == 1) };
        let h = History {
            per_origin: vec![
                vec![(opk(0).0, stamps[0], opk(0).1), (opk(2).0, stamps[2], opk(2).1)],
                vec![(opk(1).0, stamps[1], opk(1).1), (opk(3).0, stamps[3], opk(3).1)],
            ],
        };
        // all reachable replicas
        let mut states: BTreeMap<String, (OrSWotSet<1>, Vec<Op>)> = BTreeMap::new();
        let all: Vec<Op> = vec![
            Op { key: opk(0).0, ts: stamps[0], del: opk(0).1, src: 0 },
            Op { key: opk(1).0, ts: stamps[1], del: opk(1).1, src: 0 },
            Op { key: opk(2).0, ts: stamps[2], del: opk(2).1, src: 0 },
            Op { key: opk(3).0, ts: stamps[3], del: opk(3).1, src: 0 },
        ];
        let mut orders: Vec<Vec<usize>> = Vec::new();
        fn perms(n: usize, cur: &mut Vec<usize>, out: &mut Vec<Vec<usize>>) {
            out.push(cur.clone());
            for i in 0..n {
                if !cur.contains(&i) {
                    cur.push(i);
                    perms(n, cur, out);
                    cur.pop();
                }
            }
        }
        perms(4, &mut Vec::new(), &mut orders);
        for ord in orders {
            let applied: Vec<Op> = ord.iter().map(|&i| all[i]).collect();
            if regime == Regime::Prefix && !precondition_holds(&h, &applied, Regime::Prefix) {
                continue;
            }
            // prefix regime additionally needs per-origin stamp order of arrival
            if regime == Regime::Prefix {
                let mut ok = true;
                for o in 0..2u8 {
                    let v: Vec<HLCTimestamp> = applied.iter().filter(|a| a.ts.node() == o).map(|a| a.ts).collect();
                    if v.windows(2).any(|w| w[0] > w[1]) {
                        ok = false;
                    }
                }
                if !ok {
                    continue;
                }
            }
            let mut s = OrSWotSet::<1>::default();
            for op in &applied {
                apply(&mut s, op);
            }
            states.entry(format!("{s:?}")).or_insert((s, applied));
        }
        let v: Vec<&(OrSWotSet<1>, Vec<Op>)> = states.values().collect();
        let mut local = Vec::new();
        for a in &v {
            for b in &v {
                for c in &v {
                    let mut out = CaseOut::default();
                    let (ea, eb) = (enumerate(&a.0), enumerate(&b.0));
                    if ea != eb {
                        out.nontrivial = Some(hash_of(&(t, &ea, &eb, enumerate(&c.0))));
                    }
                    out.count("merges_executed", 14);
                    for (law, detail) in c03_laws(&a.0, &b.0, &c.0, 2, 2) {
                        out.violate(
                            format!("C03:{}:{}", law, if regime == Regime::Prefix { "gap-free-prefix" } else { "one-window" }),
                            json!({"sources": 1, "history": history_json(&h),
                                "a": a.1.iter().map(op_json).collect::<Vec<_>>(), "b": b.1.iter().map(op_json).collect::<Vec<_>>(), "c": c.1.iter().map(op_json).collect::<Vec<_>>(), "law": detail}),
                        );
                        out.replay = Some(json!({"mode": "explicit", "sources": 1,
                            "a": a.1.iter().map(op_json).collect::<Vec<_>>(), "b": b.1.iter().map(op_json).collect::<Vec<_>>(), "c": c.1.iter().map(op_json).collect::<Vec<_>>()}));
                    }
                    local.push(out);
                }
            }
        }
        sub.lock().append(&mut local);
        let mut o = CaseOut::default();
        o.count("exhaustive_reachable_replicas", v.len() as u64);
        o
    });
    report.evaluations = before;
    for o in sub.into_inner() {
        report.absorb(o);
    }
}

fn c03_replay(report: &mut Report, r: &Value) {
    if r["mode"] == "random" {
        let regime = if r["regime"] == "Prefix" { Regime::Prefix } else if r["regime"] == "Gaps" { Regime::Gaps } else { Regime::Window };
        let (seed, i, stream) = (r["seed"].as_u64().unwrap(), r["index"].as_u64().unwrap(), r["stream"].as_u64().unwrap());
        let out = if r["sources"].as_u64() == Some(1) { c03_case::<1>(seed, i, regime, stream) } else { c03_case::<2>(seed, i, regime, stream) };
        report.absorb(out);
    } else {
        let build = |v: &Value| {
            let mut s = OrSWotSet::<1>::default();
            for op in v.as_array().unwrap().iter().map(op_from_json) {
                apply(&mut s, &op);
            }
            s
        };
        let (a, b, c) = (build(&r["a"]), build(&r["b"]), build(&r["c"]));
        let mut out = CaseOut::default();
        for (law, detail) in c03_laws(&a, &b, &c, 2, 2) {
            out.violate(format!("C03:{law}:replay"), detail);
        }
        report.absorb(out);
    }
}

pub fn c03(args: &Args) {
    let mut report = Report::new(
        args,
        "E0-crdt",
        "replica triples (A,B,C) built only through insert/delete_with_source on the real OrSWotSet from one generated operation history (3 keys, 3 origins, <=3 ops per origin, distinct stamps). Regime gap-free-prefix: per origin a prefix in stamp order, stamps minutes to hours apart (cut-offs move). Regime one-window: all stamps within 3590 s, arbitrary subsets in arbitrary order. Preconditions re-checked on the recorded history. Exhaustive part: 2 origins x 2 ops, all 256 key/kind tables, all reachable replicas, all ordered triples, N=1. Laws: commutativity, associativity, idempotence (live ids+stamps), re-merge and self-merge change nothing (full listing + will_apply battery), transitive mutual merge makes lookups equal. Non-trivial = A and B differ; distinct = distinct (listing A, listing B, listing C).",
    );
    if let Some(path) = &args.replay {
        c03_replay(&mut report, &read_replay(path));
        report.finish(args);
        return;
    }
    c03_exhaustive(&mut report, args, Regime::Prefix);
    c03_exhaustive(&mut report, args, Regime::Window);
    report.exhaustive = false; // exhaustive only for the small universe; random beyond
    let n = args.pick(600_000, 10_000_000);
    let seed = args.seed;
    for (regime, stream) in [(Regime::Prefix, 0xC03A), (Regime::Window, 0xC03B)] {
        run_cases(&mut report, n, args.threads, Duration::from_secs(args.pick(60, 600)), |i| {
            if i % 4 == 0 {
                c03_case::<1>(seed, i, regime, stream)
            } else {
                c03_case::<2>(seed, i, regime, stream)
            }
        });
    }
    report.finish(args);
}

// ---------------------------------------------------------------------------
// C05
// ---------------------------------------------------------------------------

/// Reference difference computed from observations only.
fn reference_diff<const N: usize>(replica: &OrSWotSet<N>, peer: &OrSWotSet<N>) -> (BTreeSet<(u64, HLCTimestamp)>, BTreeSet<(u64, HLCTimestamp)>) {
    let (pl, pd) = enumerate(peer);
    let (rl, rd) = enumerate(replica);
    let held: BTreeMap<u64, HLCTimestamp> = rl.iter().chain(rd.iter()).copied().collect();
    let mut changes = BTreeSet::new();
    let mut removals = BTreeSet::new();
    for (list, out) in [(&pl, &mut changes), (&pd, &mut removals)] {
        for &(k, t) in list.iter() {
            let listed = match held.get(&k) {
                Some(mine) => *mine < t,
                // holds nothing for the key: will_apply == "not older than the
                // purge cut-off for that origin"
                None => replica.will_apply(k, t),
            };
            if listed {
                out.insert((k, t));
            }
        }
    }
    (changes, removals)
}

/// Applies a diff the way the keyspace actor does: each batch filtered by
/// will_apply against the state before the batch, sorted by stamp, applied
/// through the read-repair source.
fn apply_batch<const N: usize>(r: &mut OrSWotSet<N>, items: &[(u64, HLCTimestamp)], del: bool) {
    let mut valid: Vec<(u64, HLCTimestamp)> = items.iter().copied().filter(|(k, t)| r.will_apply(*k, *t)).collect();
    valid.sort_by_key(|e| e.1);
    for (k, t) in valid {
        if del {
            r.delete_with_source(N - 1, k, t);
        } else {
            r.insert_with_source(N - 1, k, t);
        }
    }
}

fn c05_check<const N: usize>(a: &OrSWotSet<N>, b: &OrSWotSet<N>, keys: u64, check_apply: bool, out: &mut CaseOut, ctx: &dyn Fn() -> Value) {
    let (ch, rm) = a.diff(b);
    out.count("diff_items", (ch.len() + rm.len()) as u64);
    let (rch, rrm) = reference_diff(a, b);
    let got_ch: BTreeSet<_> = ch.iter().copied().collect();
    let got_rm: BTreeSet<_> = rm.iter().copied().collect();
    if got_ch.len() != ch.len() || got_rm.len() != rm.len() {
        out.violate("C05:diff-lists-duplicate", ctx());
    }
    if got_ch != rch || got_rm != rrm {
        out.violate(
            "C05:diff-not-exactly-what-is-missing",
            json!({"ctx": ctx(), "diff_modified": ch.iter().map(|(k, t)| json!([k, ts_json(*t)])).collect::<Vec<_>>(),
                "diff_removed": rm.iter().map(|(k, t)| json!([k, ts_json(*t)])).collect::<Vec<_>>(),
                "expected_modified": rch.iter().map(|(k, t)| json!([k, ts_json(*t)])).collect::<Vec<_>>(),
                "expected_removed": rrm.iter().map(|(k, t)| json!([k, ts_json(*t)])).collect::<Vec<_>>()}),
        );
    }
    if !check_apply {
        return;
    }
    out.count("exchanges_applied", 1);
    for order in ["removals-first", "modifications-first"] {
        let mut r = a.clone();
        if order == "removals-first" {
            apply_batch(&mut r, &rm, true);
            apply_batch(&mut r, &ch, false);
        } else {
            apply_batch(&mut r, &ch, false);
            apply_batch(&mut r, &rm, true);
        }
        let (ch2, rm2) = r.diff(b);
        if !(ch2.is_empty() && rm2.is_empty()) {
            out.violate(
                format!("C05:something-left-to-fetch-after-applying:{order}"),
                json!({"ctx": ctx(), "left_modified": ch2.iter().map(|(k, t)| json!([k, ts_json(*t)])).collect::<Vec<_>>(),
                    "left_removed": rm2.iter().map(|(k, t)| json!([k, ts_json(*t)])).collect::<Vec<_>>()}),
            );
        }
    }
    // mutual repair, all four order combinations
    for oa in 0..2 {
        for ob in 0..2 {
            let (mut ra, mut rb) = (a.clone(), b.clone());
            let (cha, rma) = a.diff(b);
            let (chb, rmb) = b.diff(a);
            if oa == 0 {
                apply_batch(&mut ra, &rma, true);
                apply_batch(&mut ra, &cha, false);
            } else {
                apply_batch(&mut ra, &cha, false);
                apply_batch(&mut ra, &rma, true);
            }
            if ob == 0 {
                apply_batch(&mut rb, &rmb, true);
                apply_batch(&mut rb, &chb, false);
            } else {
                apply_batch(&mut rb, &chb, false);
                apply_batch(&mut rb, &rmb, true);
            }
            if live_of(&ra, keys) != live_of(&rb, keys) {
                out.violate(
                    "C05:mutual-repair-leaves-different-live-sets",
                    json!({"ctx": ctx(), "a_after": listing_json(&enumerate(&ra)), "b_after": listing_json(&enumerate(&rb))}),
                );
                return;
            }
        }
    }
}

fn c05_case<const N: usize>(seed: u64, i: u64, regime: Regime, stream: u64) -> CaseOut {
    let mut rng = rng_for(seed, stream, i);
    let keys = 3;
    let h = gen_history(&mut rng, regime, 3, 3, keys);
    let (a, ha) = build_replica::<N>(&mut rng, &h, regime);
    let (b, hb) = build_replica::<N>(&mut rng, &h, regime);
    let mut out = CaseOut::default();
    if !(precondition_holds(&h, &ha, regime) && precondition_holds(&h, &hb, regime)) {
        out.inconclusive = Some("generator precondition slip".into());
        return out;
    }
    let (ea, eb) = (enumerate(&a), enumerate(&b));
    if ea != eb {
        out.nontrivial = Some(hash_of(&(N, &ea, &eb)));
    }
    let ctx = || {
        json!({"sources": N, "regime": format!("{regime:?}"), "history": history_json(&h),
            "replica_ops": ha.iter().map(op_json).collect::<Vec<_>>(), "peer_ops": hb.iter().map(op_json).collect::<Vec<_>>(),
            "replica": listing_json(&ea), "peer": listing_json(&eb)})
    };
    // The exchange is applied the way the system applies it: through the
    // read-repair source of a two-source set. With a single source and stamps
    // hours apart, applying the newer batch first legitimately moves the only
    // cut-off past the older batch (a source must deliver in stamp order), so
    // for N=1 the second sentence is only checked inside one window.
    // With gaps (operations an origin issued that never reached a replica) only the first sentence is stated.
    let check_apply = regime != Regime::Gaps && (N == 2 || regime == Regime::Window);
    if regime == Regime::Gaps {
        out.count("pairs_with_gaps", 1);
        // the situation the first sentence distinguishes: the replica HOLDS the key, the peer's entry is
        // newer, and the replica's cut-off for that origin already lies beyond the peer's stamp
        let (pl, pd) = enumerate(&b);
        let (rl, rd) = enumerate(&a);
        let held: BTreeMap<u64, HLCTimestamp> = rl.iter().chain(rd.iter()).copied().collect();
        for (k, t) in pl.iter().chain(pd.iter()) {
            if held.get(k).map_or(false, |mine| mine < t) && !a.will_apply((*k + 1_000_000) as u64, *t) {
                out.count("held_key_newer_at_peer_but_older_than_cutoff", 1);
            }
        }
    }
    c05_check(&a, &b, keys, check_apply, &mut out, &ctx);
    if !out.violations.is_empty() {
        out.replay = Some(json!({"mode": "random", "seed": seed, "index": i, "sources": N, "regime": format!("{regime:?}"), "stream": stream}));
    }
    if i == 2 {
        out.sample = Some(ctx());
    }
    out
}

pub fn c05(args: &Args) {
    let mut report = Report::new(
        args,
        "E0-crdt",
        "replica pairs built as in C03 (gap-free-prefix with hour-scale gaps / one-window) and a third regime in which replicas MISSED operations of an origin (hour scale; first sentence only), N=1 and N=2 sources. (1) real diff(replica, peer) compared as sets, kind and stamp included, with a reference diff computed from observations only (listings + will_apply for unknown keys). (2) the returned lists applied the way the keyspace actor applies a batch (filter by will_apply, sort by stamp, read-repair source) removals-first and modifications-first: a second diff must be empty; mutual repair in all 4 order combinations must give equal lookups. Non-trivial = the two replicas differ; distinct = distinct (listing, listing).",
    );
    if let Some(path) = &args.replay {
        let r = read_replay(path);
        let regime = if r["regime"] == "Prefix" { Regime::Prefix } else if r["regime"] == "Gaps" { Regime::Gaps } else { Regime::Window };
        let (seed, i, stream) = (r["seed"].as_u64().unwrap(), r["index"].as_u64().unwrap(), r["stream"].as_u64().unwrap());
        let out = if r["sources"].as_u64() == Some(1) { c05_case::<1>(seed, i, regime, stream) } else { c05_case::<2>(seed, i, regime, stream) };
        report.absorb(out);
        report.finish(args);
        return;
    }
    let n = args.pick(2_000_000, 30_000_000);
    let seed = args.seed;
    for (regime, stream) in [(Regime::Prefix, 0xC05A), (Regime::Window, 0xC05B), (Regime::Gaps, 0xC05C)] {
        run_cases(&mut report, n, args.threads, Duration::from_secs(args.pick(60, 900)), |i| {
            if i % 3 == 0 {
                c05_case::<1>(seed, i, regime, stream)
            } else {
                c05_case::<2>(seed, i, regime, stream)
            }
        });
    }
    report.floor("held_key_newer_at_peer_but_older_than_cutoff", 1_000);
    report.finish(args);
}

// ---------------------------------------------------------------------------
// C08 (local facts)
// ---------------------------------------------------------------------------

fn c08_case(seed: u64, i: u64) -> CaseOut {
    let mut rng = rng_for(seed, 0xC08, i);
    let keys = 4u64;
    let origins = 3u8;
    let mut out = CaseOut::default();
    // hour-scale history; each origin's operations reach the replica in
    // stamp order per source (that is what a source is), purges at random points
    let mut set = OrSWotSet::<2>::default();
    let mut clock: Vec<u64> = (0..origins).map(|_| 40_000_000 + rng.gen_range(0..1000u64) * 4).collect();
    let mut issued: Vec<Vec<(u64, HLCTimestamp, bool)>> = vec![Vec::new(); origins as usize];
    let mut purged_total = 0u64;
    let mut trace = Vec::new();
    // every tombstone purged so far: the protection must last, not only hold right after the purge
    let mut purged: Vec<(u64, HLCTimestamp)> = Vec::new();
    let mut pending: Vec<(u64, HLCTimestamp, bool)> = Vec::new();
    let mut late = 0u64;
    let steps = rng.gen_range(8..40);
    for _ in 0..steps {
        if rng.gen_bool(0.2) {
            // ---- purge and check
            let before = enumerate(&set);
            let gets: Vec<_> = (0..keys).map(|k| set.get(&k).copied()).collect();
            let removed = set.purge_old_deletes();
            let after = enumerate(&set);
            trace.push(json!({"purge": removed.iter().map(|(k, t)| json!([k, ts_json(*t)])).collect::<Vec<_>>()}));
            let gets2: Vec<_> = (0..keys).map(|k| set.get(&k).copied()).collect();
            if gets != gets2 || before.0 != after.0 {
                out.violate("C08:purge-changed-live-ids", json!({"before": listing_json(&before), "after": listing_json(&after), "trace": trace}));
            }
            let mut rem: Vec<_> = removed.clone();
            rem.sort();
            let gone: Vec<_> = before.1.iter().filter(|e| !after.1.contains(e)).copied().collect();
            if rem != gone || after.1.iter().any(|e| !before.1.contains(e)) {
                out.violate("C08:purge-removed-something-else-than-reported-tombstones", json!({"before": listing_json(&before), "after": listing_json(&after), "reported": rem.iter().map(|(k, t)| json!([k, ts_json(*t)])).collect::<Vec<_>>()}));
            }
            purged_total += removed.len() as u64;
            purged.extend(removed.iter().copied());
            c08_reprobe(&set, &purged, &issued, keys, &trace, "right-after-the-purge", &mut out);
            continue;
        }
        // an operation held back earlier arrives now, behind newer ones of its origin
        if !pending.is_empty() && rng.gen_bool(0.3) {
            let (key, t, del) = pending.swap_remove(rng.gen_range(0..pending.len()));
            let via = rng.gen_range(0..3);
            for src in 0..2 {
                if via == 2 || via == src {
                    let op = Op { key, ts: t, del, src };
                    apply(&mut set, &op);
                    trace.push(json!({"late": op_json(&op)}));
                    late += 1;
                }
            }
            c08_reprobe(&set, &purged, &issued, keys, &trace, "after-a-late-operation", &mut out);
            continue;
        }
        let o = rng.gen_range(0..origins) as usize;
        // minutes .. 2 hours between operations of one origin
        clock[o] += rng.gen_range(1..1_800_000u64) * 4;
        let t = ts(clock[o], rng.gen_range(0..3), o as u8);
        let key = rng.gen_range(0..keys);
        let del = rng.gen_bool(0.5);
        issued[o].push((key, t, del));
        if rng.gen_bool(0.2) {
            // held back: reaches the replica later (or never), out of order
            pending.push((key, t, del));
            continue;
        }
        // the op reaches the replica through one or both sources (direct + repair)
        let via = rng.gen_range(0..3);
        for src in 0..2 {
            if via == 2 || via == src {
                let op = Op { key, ts: t, del, src };
                apply(&mut set, &op);
                trace.push(op_json(&op));
            }
        }
        if !purged.is_empty() {
            c08_reprobe(&set, &purged, &issued, keys, &trace, "after-later-operations", &mut out);
        }
    }
    out.count("late_operations", late);
    out.count("tombstones_purged", purged_total);
    out.count("steps", steps as u64);
    if purged_total > 0 {
        out.nontrivial = Some(hash_of(&format!("{trace:?}")));
    }
    if !out.violations.is_empty() {
        out.replay = Some(json!({"mode": "random", "seed": seed, "index": i}));
    }
    if i == 11 || (purged_total > 1 && i < 500) {
        out.sample = Some(json!({"trace": trace}));
    }
    out
}

/// For every tombstone purged so far: no operation of the deleting origin that is not newer than
/// the purged delete may be accepted (any key, both kinds, any source).
fn c08_reprobe(
    set: &OrSWotSet<2>,
    purged: &[(u64, HLCTimestamp)],
    issued: &[Vec<(u64, HLCTimestamp, bool)>],
    keys: u64,
    trace: &[Value],
    when: &str,
    out: &mut CaseOut,
) {
    let snapshot = enumerate(set);
    for (pk, pt) in purged {
        let o = pt.node() as usize;
        let mut probes: Vec<(u64, HLCTimestamp, bool)> = issued[o].iter().filter(|e| e.1 <= *pt).copied().collect();
        probes.push((*pk, *pt, false));
        probes.push((*pk, *pt, true));
        let ms = pt.datacake_timestamp().as_millis() as u64;
        if ms >= 4 {
            probes.push((*pk, ts(ms - 4, 0, pt.node()), false));
            probes.push(((*pk + 1) % keys, ts(ms - 4, 60000, pt.node()), true));
        }
        for (k, t, del) in probes {
            for kind_del in [del, !del] {
                for src in 0..2 {
                    let wa = set.will_apply(k, t);
                    let mut trial = set.clone();
                    let ret = if kind_del { trial.delete_with_source(src, k, t) } else { trial.insert_with_source(src, k, t) };
                    out.count("post_purge_probes", 1);
                    if wa || ret || enumerate(&trial) != snapshot {
                        out.violate(
                            format!("C08:operation-not-newer-than-purged-delete-accepted:{when}"),
                            json!({"purged": [pk, ts_json(*pt)], "probe": {"key": k, "ts": ts_json(t), "del": kind_del, "src": src},
                                "will_apply": wa, "returned": ret, "state_changed": enumerate(&trial) != snapshot, "trace": trace}),
                        );
                        return;
                    }
                }
            }
        }
    }
}

pub fn c08_local(args: &Args) {
    let mut report = Report::new(
        args,
        "E0-crdt",
        "local facts: OrSWotSet<2> driven with hour-scale histories (3 origins, 4 keys, each origin's ops in stamp order through source 0, 1 or both) with purge_old_deletes at random points; a fifth of the operations is held back and arrives later, behind newer operations of its origin (or never). At every purge: get() of every key and the live listing unchanged, exactly the reported tombstones disappear; afterwards AND AFTER EVERY LATER STEP of the history every operation of the deleting origin with stamp <= the purged delete (all issued ones plus boundary probes, both kinds, both sources, any key) must have will_apply=false, return false and leave the listing unchanged. Non-trivial = at least one tombstone was actually purged; distinct = distinct operation traces.",
    );
    if let Some(path) = &args.replay {
        let r = read_replay(path);
        report.absorb(c08_case(r["seed"].as_u64().unwrap(), r["index"].as_u64().unwrap()));
        report.finish(args);
        return;
    }
    let seed = args.seed;
    let n = args.pick(1_500_000, 30_000_000);
    run_cases(&mut report, n, args.threads, Duration::from_secs(args.pick(60, 900)), |i| c08_case(seed, i));
    report.finish(args);
}
