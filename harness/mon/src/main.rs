//! `mon` — runtime monitors for lnx-search/datacake (see /verif/DESIGN.md).
mod actor;
mod cluster;
mod common;
mod crdt;
mod hlc;
mod hstore;
mod node;
mod rpc;
mod storage;

use common::Args;

fn main() {
    let args = Args::parse();
    match args.prop.as_str() {
        "C01" => cluster::c01(&args),
        "C02-cluster" => cluster::c02_cluster(&args),
        "C06" => cluster::c06(&args),
        "C08-cluster" => cluster::c08_cluster(&args),
        "C16-e2e" => cluster::c16_e2e(&args),
        "C02" => actor::c02(&args),
        "C07" => actor::c07(&args),
        "C07-lmdb" => actor::c07_lmdb_child(&args),
        "C18" => actor::c18(&args),
        "C19" => actor::c19(&args),
        "C19-batch" => actor::c19_batch(&args),
        "C03" => crdt::c03(&args),
        "C04" => crdt::c04(&args),
        "C05" => crdt::c05(&args),
        "C08-local" => crdt::c08_local(&args),
        "C09" => hlc::c09(&args),
        "C10" => hlc::c10(&args),
        "C11" => node::c11(&args),
        "C12" => rpc::c12(&args),
        "C12-family" => rpc::c12_family_child(&args),
        "C13" => rpc::c13(&args),
        "C14-tcp" => rpc::c14_tcp(&args),
        "C15" => node::c15(&args),
        "C17" => storage::c17(&args),
        "C17-lmdb-batch" => storage::c17_lmdb_batch(&args),
        "C16" => node::c16(&args),
        other => {
            eprintln!("unknown monitor {other}");
            std::process::exit(2);
        },
    }
}
