//! `mon` — runtime monitors for lnx-search/datacake (see /verif/DESIGN.md).
mod actor;
mod cluster;
mod common;
mod crdt;
mod hlc;
mod hstore;
mod node;
mod rpc;
mod storage;

use common::Args;

fn main() {
    let args = Args::parse();
    match args.prop.as_str() {
        "C01" => cluster::c01(&args),
        "C02-cluster" => cluster::c02_cluster(&args),
        "C06" => cluster::c06(&args),
        "C08-cluster" => cluster::c08_cluster(&args),
        "C08-actor" => actor::c08_actor(&args),
        "C16-e2e" => cluster::c16_e2e(&args),
        "C02" => actor::c02(&args),
        "C07" => actor::c07(&args),
        "C07-lmdb" => actor::c07_lmdb_child(&args),
        "C18" => actor::c18(&args),
        "C19" => actor::c19(&args),
        "C19-batch" => actor::c19_batch(&args),
        "C03" => crdt::c03(&args),
        "C04" => crdt::c04(&args),
        "C05" => crdt::c05(&args),
        "C08-local" => crdt::c08_local(&args),
        "C09" => hlc::c09(&args),
        "C10" => hlc::c10(&args),
        "C11" => node::c11(&args),
        "C12" => rpc::c12(&args),
        "C12-family" => rpc::c12_family_child(&args),
        "C13" => rpc::c13(&args),
        "C14-tcp" => rpc::c14_tcp(&args),
        "C14-tcp-faults" => rpc::c14_tcp_faults(&args),
        "C15" => node::c15(&args),
        "C17" => storage::c17(&args),
        "C17-lmdb-batch" => storage::c17_lmdb_batch(&args),
        "C16" => node::c16(&args),
        // sanity check of the sanitizer builds (seeded/self/selftest.py): a deliberate unsynchronised
        // write from two threads (TSan must report it) / a heap read past the end (ASan, memcheck must)
        "SELFTEST-race" => selftest_race(),
        "SELFTEST-oob" => selftest_oob(),
        other => {
            eprintln!("unknown monitor {other}");
            std::process::exit(2);
        },
    }
}

fn selftest_race() {
    static mut CELL: u64 = 0;
    let hs: Vec<_> = (0..2)
        .map(|k| {
            std::thread::spawn(move || {
                for i in 0..10_000u64 {
                    unsafe { std::ptr::write_volatile(std::ptr::addr_of_mut!(CELL), i + k) };
                }
            })
        })
        .collect();
    for h in hs {
        h.join().unwrap();
    }
    println!("selftest-race done {}", unsafe { std::ptr::read_volatile(std::ptr::addr_of!(CELL)) });
}

fn selftest_oob() {
    let v: Vec<u8> = vec![1; 24];
    let p = std::hint::black_box(v.as_ptr());
    let x = unsafe { std::ptr::read_volatile(p.add(std::hint::black_box(24))) };
    println!("selftest-oob done {x}");
}
