//! Engine E2 (whole-node cluster): N real nodes - public ReplicatedStoreHandle
//! API, real task distributor, real replication poller, real membership
//! watcher, real node selector actor, real Clock - on one current-thread tokio
//! runtime with paused (virtual) time, talking over the in-memory transport
//! (hook H2) under a seeded per-message fault policy, with per-node skewed
//! wall clocks (hook H1). Serves C01, C02 (cluster form), C06, C08 (cluster
//! form), C16 (end to end).
use std::borrow::Cow;
use std::collections::{BTreeMap, BTreeSet};
use std::marker::PhantomData;
use std::net::SocketAddr;
use std::sync::atomic::Ordering;
use std::sync::Arc;
use std::time::Duration;

use datacake_crdt::{HLCTimestamp, Key};
use datacake_eventual_consistency::test_utils::MemStore;
use datacake_eventual_consistency::verif as ecv;
use datacake_eventual_consistency::{EventuallyConsistentStore, ReplicatedStoreHandle, Storage, StoreError};
use datacake_node::verif as nv;
use datacake_node::{Clock, ClusterMember, ClusterStatistics, Consistency, ConsistencyError, DCAwareSelector, RpcNetwork};
use datacake_rpc::verif as rv;
use datacake_rpc::Server;
use parking_lot::Mutex;
use rand::prelude::*;
use serde_json::{json, Value};
use tokio::sync::watch;

use crate::actor::{set_of, store_listing};
use crate::common::*;
use crate::crdt::{enumerate, listing_json, ts_json};
use crate::hstore::{Ctl, HStore, Write};
use crate::node::{need, LEVELS};

pub type Store = HStore<MemStore>;

pub struct CNode {
    pub id: u8,
    pub addr: SocketAddr,
    pub dc: String,
    pub ctl: Arc<Ctl>,
    pub inner: Arc<MemStore>,
    pub store: Option<EventuallyConsistentStore<Store>>,
    pub snap_tx: watch::Sender<nv::NodeMembership>,
    pub _server: Server,
    pub up: bool,
    pub alive: Arc<std::sync::atomic::AtomicBool>,
}

impl CNode {
    pub fn handle(&self) -> ReplicatedStoreHandle<Store> {
        self.store.as_ref().expect("node is up").handle()
    }
    pub fn group(&self) -> ecv::KeyspaceGroup<Store> {
        ecv::group_of(self.store.as_ref().expect("node is up"))
    }
    pub fn member(&self) -> ClusterMember {
        ClusterMember::new(self.id, self.addr, self.dc.clone())
    }
}

/// Starts one node: the body of DatacakeNodeBuilder::connect +
/// EventuallyConsistentStore::create without chitchat and sockets (hooks H3/H4).
pub async fn start_node(id: u8, addr: SocketAddr, dc: &str, inner: Arc<MemStore>, ctl: Arc<Ctl>, repair_interval: Duration, store_first: bool, initial: Option<nv::NodeMembership>) -> CNode {
    let clock = Clock::new(id);
    let network = RpcNetwork::default();
    let server = Server::verif_in_memory(addr);
    let selector = nv::start_node_selector(addr, Cow::Owned(dc.to_string()), DCAwareSelector).await;
    let stats = ClusterStatistics::default();
    let me = ClusterMember::new(id, addr, dc.to_string());
    let first = initial.unwrap_or_else(|| BTreeMap::from([(id, me.clone())]));
    let (snap_tx, snap_rx) = watch::channel(first);
    let changes = nv::spawn_membership_watcher(id, network.clone(), selector.clone(), stats.clone(), snap_rx);
    let _ = store_first;
    let handle = nv::new_handle(me, clock, network, selector, stats, changes);
    let st = HStore::new(inner.clone(), ctl.clone());
    let alive = st.alive.clone();
    let store = ecv::create_store(st, repair_interval, handle, &server).await.expect("create store");
    CNode { id, addr, dc: dc.to_string(), ctl, inner, store: Some(store), snap_tx, _server: server, up: true, alive }
}

#[derive(Default)]
pub struct NetStats {
    pub delivered: u64,
    pub dropped: u64,
    pub duplicated: u64,
    pub reply_dropped: u64,
    pub held: u64,
    pub to_down_node: u64,
}

pub struct Chaos {
    pub rng: StdRng,
    pub enabled: bool,
    /// percent thresholds: deliver / drop / duplicate / drop-reply / hold
    pub mix: [u32; 5],
    pub max_hold_ms: u64,
    pub fault_replication: bool,
    pub stats: NetStats,
    pub down: BTreeSet<SocketAddr>,
    /// (destination, uri) of every consistency request seen, for C06 / C16
    pub seen: Vec<(SocketAddr, String)>,
    /// destination of every ReplicationService request (the repair poller's traffic), for C16
    pub seen_repair: Vec<SocketAddr>,
    pub trace_hash: u64,
    /// per-destination forced verdict (C06): 1 drop request, 2 drop reply
    pub forced: BTreeMap<SocketAddr, u8>,
    /// incarnation of the node behind an address (bumped on restart): a message
    /// held across a restart is lost, it must not reach the old incarnation
    pub epoch: BTreeMap<SocketAddr, u64>,
}

pub type SharedChaos = Arc<Mutex<Chaos>>;

pub fn new_chaos(seed: u64, mix: [u32; 5], max_hold_ms: u64) -> SharedChaos {
    Arc::new(Mutex::new(Chaos {
        rng: StdRng::seed_from_u64(seed),
        enabled: false,
        mix,
        max_hold_ms,
        fault_replication: false,
        stats: NetStats::default(),
        down: BTreeSet::new(),
        seen: Vec::new(),
        seen_repair: Vec::new(),
        trace_hash: 0,
        forced: BTreeMap::new(),
        epoch: BTreeMap::new(),
    }))
}

pub fn install_policy(addr: SocketAddr, chaos: &SharedChaos) {
    let chaos = chaos.clone();
    rv::set_policy(
        addr,
        Some(Arc::new(move |m: rv::MsgInfo| {
            let chaos = chaos.clone();
            Box::pin(async move {
                let epoch_before = chaos.lock().epoch.get(&m.to).copied().unwrap_or(0);
                let (verdict, delay) = {
                    let mut c = chaos.lock();
                    let consistency = m.uri.contains("ConsistencyService");
                    if consistency {
                        c.seen.push((m.to, m.uri.clone()));
                    } else if m.uri.contains("ReplicationService") {
                        c.seen_repair.push(m.to);
                    }
                    if c.down.contains(&m.to) {
                        c.stats.to_down_node += 1;
                        (1u8, 0u64)
                    } else if let Some(f) = c.forced.get(&m.to).copied().filter(|_| consistency) {
                        (if f == 1 { 1 } else { 3 }, 0)
                    } else if !c.enabled || !(consistency || c.fault_replication) {
                        (0, 0)
                    } else {
                        let r: u32 = c.rng.gen_range(0..100);
                        let mix = c.mix;
                        let v = if r < mix[0] {
                            0
                        } else if r < mix[0] + mix[1] {
                            1
                        } else if r < mix[0] + mix[1] + mix[2] {
                            2
                        } else if r < mix[0] + mix[1] + mix[2] + mix[3] {
                            3
                        } else {
                            4
                        };
                        let max = c.max_hold_ms.max(1);
                        let d = c.rng.gen_range(0..max);
                        (v, d)
                    }
                };
                {
                    let mut c = chaos.lock();
                    c.trace_hash = hash_of(&(c.trace_hash, m.to, m.uri.len(), verdict, delay));
                    match verdict {
                        0 => c.stats.delivered += 1,
                        1 => c.stats.dropped += 1,
                        2 => c.stats.duplicated += 1,
                        3 => c.stats.reply_dropped += 1,
                        _ => c.stats.held += 1,
                    }
                }
                match verdict {
                    0 => rv::Verdict::Deliver,
                    1 => rv::Verdict::Drop,
                    2 => rv::Verdict::Duplicate,
                    3 => rv::Verdict::DropReply,
                    _ => {
                        // holding two messages for different times and releasing them
                        // in the other order is reordering
                        tokio::time::sleep(Duration::from_millis(delay)).await;
                        let c = chaos.lock();
                        if c.down.contains(&m.to) || c.epoch.get(&m.to).copied().unwrap_or(0) != epoch_before {
                            rv::Verdict::Drop
                        } else {
                            rv::Verdict::Deliver
                        }
                    },
                }
            })
        })),
    );
}

pub fn install_wall(skew_ms: Vec<i64>) {
    let base = Duration::from_secs(100_000_000);
    let start = tokio::time::Instant::now();
    datacake_crdt::verif::set_wall(Some(Box::new(move |node| {
        let skew = skew_ms.get(node as usize).copied().unwrap_or(0);
        let now = base + start.elapsed();
        Some(if skew >= 0 { now + Duration::from_millis(skew as u64) } else { now - Duration::from_millis((-skew) as u64) })
    })));
}

pub fn scen_addr(tag: u8, scen: u64, node: u8) -> SocketAddr {
    SocketAddr::from(([10, tag, (scen >> 8) as u8, scen as u8], 3000 + node as u16 + (((scen >> 16) % 200) as u16) * 256))
}

pub struct Cluster {
    pub nodes: Vec<CNode>,
    pub chaos: SharedChaos,
    pub repair_interval: Duration,
}

impl Cluster {
    pub fn members(&self) -> nv::NodeMembership {
        self.nodes.iter().filter(|n| n.up).map(|n| (n.id, n.member())).collect()
    }

    pub fn publish_membership(&self) {
        let m = self.members();
        for n in self.nodes.iter().filter(|n| n.up) {
            let _ = n.snap_tx.send(m.clone());
        }
    }

    pub fn all_writes(&self) -> Vec<Write> {
        let mut v = Vec::new();
        for n in &self.nodes {
            v.extend(n.ctl.log.lock().iter().cloned());
        }
        v
    }

    pub fn shutdown(&self) {
        for n in &self.nodes {
            rv::unregister(n.addr);
        }
        datacake_crdt::verif::set_wall(None);
        ecv::set_failpoint(None);
    }

    /// One explicit anti-entropy round: node i pulls from node j for every
    /// ordered pair of live nodes in random order; the failpoints decide which
    /// half of each exchange reaches the keyspace actor first. Returns
    /// Err(reason) when an exchange did not complete after `retries` attempts.
    pub async fn final_round(&self, rng: &mut StdRng, keyspaces: &[&str], retries: usize) -> Result<u64, String> {
        let fp_rng = Arc::new(Mutex::new(StdRng::seed_from_u64(rng.gen())));
        ecv::set_failpoint(Some(Box::new(move |_name| Duration::from_millis(fp_rng.lock().gen_range(0..40)))));
        let live: Vec<usize> = (0..self.nodes.len()).filter(|i| self.nodes[*i].up).collect();
        let mut pairs: Vec<(usize, usize)> = live.iter().flat_map(|i| live.iter().filter(move |j| *j != i).map(move |j| (*i, *j))).collect();
        pairs.shuffle(rng);
        let mut exchanges = 0;
        for (i, j) in pairs {
            let mut done_all = false;
            for _ in 0..retries {
                let g = self.nodes[i].group();
                let net = ecv::network_of(self.nodes[i].store.as_ref().unwrap());
                let fut = ecv::repair_from(g, net, self.nodes[j].id, self.nodes[j].addr);
                let done = match tokio::time::timeout(Duration::from_secs(120), fut).await {
                    Ok(d) => d,
                    Err(_) => continue,
                };
                exchanges += 1;
                // premise: the exchange completed for every keyspace the peer holds something in
                let mut ok = true;
                for ks in keyspaces {
                    let peer_has = self.nodes[j].inner.iter_metadata(ks).await.map(|m| m.count() > 0).unwrap_or(false);
                    if peer_has && !done.contains_key(*ks) {
                        ok = false;
                    }
                }
                if ok {
                    done_all = true;
                    break;
                }
            }
            if !done_all {
                ecv::set_failpoint(None);
                return Err(format!("exchange {} <- {} did not complete", self.nodes[i].id, self.nodes[j].id));
            }
        }
        ecv::set_failpoint(None);
        Ok(exchanges)
    }
}

#[derive(Clone, Debug)]
pub enum ClientOp {
    Put { node: usize, ks: usize, id: Key, val: Vec<u8>, level: Consistency },
    Del { node: usize, ks: usize, id: Key, level: Consistency },
    PutMany { node: usize, ks: usize, docs: Vec<(Key, Vec<u8>)>, level: Consistency },
    DelMany { node: usize, ks: usize, ids: Vec<Key>, level: Consistency },
}

fn op_json(o: &ClientOp) -> Value {
    match o {
        ClientOp::Put { node, ks, id, val, level } => json!({"put": {"node": node, "ks": ks, "id": id, "bytes": val, "level": format!("{level:?}")}}),
        ClientOp::Del { node, ks, id, level } => json!({"del": {"node": node, "ks": ks, "id": id, "level": format!("{level:?}")}}),
        ClientOp::PutMany { node, ks, docs, level } => json!({"put_many": {"node": node, "ks": ks, "ids": docs.iter().map(|d| d.0).collect::<Vec<_>>(), "level": format!("{level:?}")}}),
        ClientOp::DelMany { node, ks, ids, level } => json!({"del_many": {"node": node, "ks": ks, "ids": ids, "level": format!("{level:?}")}}),
    }
}

pub const KEYSPACES: [&str; 2] = ["ks-a", "ks-b"];

async fn run_op(h: ReplicatedStoreHandle<Store>, op: ClientOp) -> Result<(), String> {
    // operations on odd ids go through the keyspace-bound handle (`with_keyspace`), the others through the store handle
    let r = match op {
        ClientOp::Put { ks, id, val, level, .. } if id % 2 == 1 => h.with_keyspace(KEYSPACES[ks]).put(id, val, level).await,
        ClientOp::Del { ks, id, level, .. } if id % 2 == 1 => h.with_keyspace(KEYSPACES[ks]).del(id, level).await,
        ClientOp::PutMany { ks, docs, level, .. } if docs.first().map(|d| d.0 % 2 == 1).unwrap_or(false) => h.with_keyspace(KEYSPACES[ks]).put_many(docs, level).await,
        ClientOp::DelMany { ks, ids, level, .. } if ids.first().map(|d| d % 2 == 1).unwrap_or(false) => h.with_keyspace(KEYSPACES[ks]).del_many(ids, level).await,
        ClientOp::Put { ks, id, val, level, .. } => h.put(KEYSPACES[ks], id, val, level).await,
        ClientOp::Del { ks, id, level, .. } => h.del(KEYSPACES[ks], id, level).await,
        ClientOp::PutMany { ks, docs, level, .. } => h.put_many(KEYSPACES[ks], docs, level).await,
        ClientOp::DelMany { ks, ids, level, .. } => h.del_many(KEYSPACES[ks], ids, level).await,
    };
    r.map_err(|e| e.to_string())
}

pub struct ScenarioCfg {
    pub n_nodes: usize,
    pub n_dcs: usize,
    pub n_keyspaces: usize,
    pub n_ids: u64,
    pub n_ops: usize,
    pub max_gap_ms: u64,
    pub max_skew_ms: i64,
    pub mix: [u32; 5],
    pub max_hold_ms: u64,
    pub late_join: bool,
    pub restart: bool,
    pub background_repair: bool,
    pub explicit_purges: bool,
    pub repair_interval: Duration,
    /// only Consistency::None writes: nothing is sent directly, everything depends on batches and repair
    pub none_only: bool,
}

pub struct ScenarioResult {
    pub inconclusive: Option<String>,
    pub read_divergence: Option<(String, Value)>,
    pub set_store_disagreement: Option<Value>,
    pub ops: usize,
    pub writes_logged: usize,
    pub exchanges: u64,
    pub net: (u64, u64, u64, u64, u64),
    pub trace_hash: u64,
    pub nontrivial: bool,
    pub distinct_final_state: u64,
    pub ops_json: Vec<Value>,
    pub tombstones_purged: u64,
    pub ops_on_purged_ids: u64,
    pub max_apply_lag_ms: u64,
    pub virtual_ms: u64,
}

/// The C01 / C08 scenario: chaos phase, quiesce, final pairwise round, oracle.
pub async fn convergence_scenario(seed: u64, scen: u64, cfg: &ScenarioCfg, tag: u8) -> ScenarioResult {
    let mut rng = rng_for(seed, 0xC01 + tag as u64, scen);
    let mut res = ScenarioResult {
        inconclusive: None,
        read_divergence: None,
        set_store_disagreement: None,
        ops: 0,
        writes_logged: 0,
        exchanges: 0,
        net: (0, 0, 0, 0, 0),
        trace_hash: 0,
        nontrivial: false,
        distinct_final_state: 0,
        ops_json: Vec::new(),
        tombstones_purged: 0,
        ops_on_purged_ids: 0,
        max_apply_lag_ms: 0,
        virtual_ms: 0,
    };
    let t_start = tokio::time::Instant::now();
    let n = cfg.n_nodes;
    let skew: Vec<i64> = (0..=n + 1).map(|_| if cfg.max_skew_ms == 0 { 0 } else { rng.gen_range(-cfg.max_skew_ms..=cfg.max_skew_ms) }).collect();
    install_wall(skew.clone());
    let chaos = new_chaos(rng.gen(), cfg.mix, cfg.max_hold_ms);
    let late: Option<usize> = if cfg.late_join && n >= 3 { Some(n - 1) } else { None };
    let mut cluster = Cluster { nodes: Vec::new(), chaos: chaos.clone(), repair_interval: cfg.repair_interval };
    for i in 0..n {
        if Some(i) == late {
            continue;
        }
        let id = (i + 1) as u8;
        let dc = format!("dc-{}", i % cfg.n_dcs);
        let node = start_node(id, scen_addr(tag, scen, id), &dc, Arc::new(MemStore::default()), Ctl::new(id), cfg.repair_interval, true, None).await;
        install_policy(node.addr, &chaos);
        cluster.nodes.push(node);
    }
    cluster.publish_membership();
    tokio::time::sleep(Duration::from_millis(if cfg.background_repair { 1200 } else { 100 })).await;
    chaos.lock().enabled = true;

    let levels = [Consistency::None, Consistency::None, Consistency::One, Consistency::Two, Consistency::Quorum, Consistency::LocalQuorum, Consistency::All, Consistency::EachQuorum];
    let mut tasks = Vec::new();
    let join_at = rng.gen_range(1..cfg.n_ops.max(2));
    // operations the clients issued, per (issuing node, keyspace, id, kind): each gets exactly one stamp
    let mut issued: BTreeMap<(u8, String, Key, bool), u64> = BTreeMap::new();
    let restart_at = if cfg.restart { Some(rng.gen_range(1..cfg.n_ops.max(2))) } else { None };
    let mut purged_ids: BTreeSet<(usize, Key)> = BTreeSet::new();
    for k in 0..cfg.n_ops {
        if late.is_some() && k == join_at {
            // a node joins after operations (and deletes) have happened
            let i = late.unwrap();
            let id = (i + 1) as u8;
            let dc = format!("dc-{}", i % cfg.n_dcs);
            let node = start_node(id, scen_addr(tag, scen, id), &dc, Arc::new(MemStore::default()), Ctl::new(id), cfg.repair_interval, true, None).await;
            install_policy(node.addr, &chaos);
            cluster.nodes.push(node);
            cluster.publish_membership();
            res.ops_json.push(json!({"join": id}));
        }
        if restart_at == Some(k) && cluster.nodes.len() >= 2 {
            // stop a node between requests and start it again on the same storage (C07 rejoin)
            let idx = rng.gen_range(0..cluster.nodes.len());
            let (id, addr, dc, inner, ctl) = {
                let nd = &cluster.nodes[idx];
                (nd.id, nd.addr, nd.dc.clone(), nd.inner.clone(), nd.ctl.clone())
            };
            // a clean stop: operations in flight finish first (crash points inside a
            // request are C07's subject at the actor level)
            for t in tasks.drain(..) {
                let _ = tokio::time::timeout(Duration::from_secs(60), t).await;
            }
            {
                let mut c = chaos.lock();
                c.down.insert(addr);
                *c.epoch.entry(addr).or_insert(0) += 1;
            }
            cluster.nodes[idx].up = false;
            // from here on nothing the old incarnation still has scheduled can write to the storage
            cluster.nodes[idx].alive.store(false, Ordering::SeqCst);
            cluster.nodes[idx].store = None; // drops the store: services are told to stop
            cluster.publish_membership();
            tokio::time::sleep(Duration::from_millis(rng.gen_range(0..2500))).await;
            let node = start_node(id, addr, &dc, inner, ctl, cfg.repair_interval, true, None).await;
            install_policy(addr, &chaos);
            chaos.lock().down.remove(&addr);
            cluster.nodes[idx] = node;
            cluster.publish_membership();
            res.ops_json.push(json!({"restart": id}));
        }
        let live: Vec<usize> = (0..cluster.nodes.len()).filter(|i| cluster.nodes[*i].up).collect();
        let node = *live.choose(&mut rng).unwrap();
        let ks = rng.gen_range(0..cfg.n_keyspaces);
        let id: Key = rng.gen_range(0..cfg.n_ids);
        let level = if cfg.none_only { Consistency::None } else { *levels.choose(&mut rng).unwrap() };
        let val: Vec<u8> = (0..rng.gen_range(0..5)).map(|_| rng.gen()).collect();
        let op = match rng.gen_range(0..10) {
            0..=4 => ClientOp::Put { node, ks, id, val, level },
            5..=6 => ClientOp::Del { node, ks, id, level },
            7 => ClientOp::PutMany { node, ks, docs: vec![(id, val.clone()), ((id + 1) % cfg.n_ids, val)], level },
            _ => ClientOp::DelMany { node, ks, ids: vec![id, (id + 2) % cfg.n_ids], level },
        };
        if purged_ids.contains(&(ks, id)) {
            res.ops_on_purged_ids += 1;
        }
        res.ops_json.push(op_json(&op));
        res.ops += 1;
        {
            let nid = cluster.nodes[node].id;
            let mut note = |ks: usize, id: Key, del: bool| *issued.entry((nid, KEYSPACES[ks].to_string(), id, del)).or_insert(0u64) += 1;
            match &op {
                ClientOp::Put { ks, id, .. } => note(*ks, *id, false),
                ClientOp::Del { ks, id, .. } => note(*ks, *id, true),
                ClientOp::PutMany { ks, docs, .. } => docs.iter().for_each(|d| note(*ks, d.0, false)),
                ClientOp::DelMany { ks, ids, .. } => ids.iter().for_each(|i| note(*ks, *i, true)),
            }
        }
        let h = cluster.nodes[node].handle();
        tasks.push(tokio::spawn(run_op(h, op)));
        tokio::time::sleep(Duration::from_millis(rng.gen_range(0..=cfg.max_gap_ms))).await;
        if cfg.explicit_purges && rng.gen_bool(0.6) {
            let live: Vec<usize> = (0..cluster.nodes.len()).filter(|i| cluster.nodes[*i].up).collect();
            let nd = &cluster.nodes[*live.choose(&mut rng).unwrap()];
            for (ki, ksn) in KEYSPACES.iter().take(cfg.n_keyspaces).enumerate() {
                let before = store_listing(nd.inner.as_ref(), ksn).await.map(|l| l.1).unwrap_or_default();
                let ksm = nd.group().get_or_create_keyspace(ksn).await;
                let _ = ksm.send(ecv::PurgeDeletes(PhantomData::<Store>)).await;
                let after = store_listing(nd.inner.as_ref(), ksn).await.map(|l| l.1).unwrap_or_default();
                for t in before.iter().filter(|t| !after.contains(t)) {
                    res.tombstones_purged += 1;
                    purged_ids.insert((ki, t.0));
                }
            }
        }
    }
    for t in tasks {
        let _ = tokio::time::timeout(Duration::from_secs(3 * 3600), t).await;
    }
    // ---- quiesce: no more operations, faults stop, held messages drain, batch windows flush
    chaos.lock().enabled = false;
    tokio::time::sleep(Duration::from_millis(cfg.max_hold_ms + 3_000)).await;

    // ---- where the real poller runs and nothing disturbed it (no node stopped or joined late,
    // replication traffic never faulted) its own cycles are the anti-entropy exchanges: after three
    // repair intervals every node has polled every peer at least twice since the last operation
    // and the cluster must have converged WITHOUT the explicit round below. This is what exercises
    // the poller's change tracking (keyspace timestamps, last_updated) which repair_from bypasses.
    let ksn_bg: Vec<&str> = KEYSPACES.iter().take(cfg.n_keyspaces).copied().collect();
    if cfg.background_repair && !cfg.restart && !cfg.late_join && tag == 1 {
        tokio::time::sleep(cfg.repair_interval * 3 + Duration::from_secs(2)).await;
        let writes = cluster.all_writes();
        let mut model: BTreeMap<(String, Key), (HLCTimestamp, bool)> = BTreeMap::new();
        for w in &writes {
            let e = model.entry((w.keyspace.clone(), w.id)).or_insert((w.ts, w.data.is_none()));
            if w.ts > e.0 {
                *e = (w.ts, w.data.is_none());
            }
        }
        let expect: BTreeSet<(String, Key, HLCTimestamp)> = model.iter().filter(|(_, v)| !v.1).map(|(k, v)| (k.0.clone(), k.1, v.0)).collect();
        for nd in cluster.nodes.iter().filter(|n| n.up) {
            let mut got = BTreeSet::new();
            for ks in &ksn_bg {
                if let Ok((live, _)) = store_listing(nd.inner.as_ref(), ks).await {
                    for (id, t) in live {
                        got.insert((ks.to_string(), id, t));
                    }
                }
            }
            if got != expect && res.read_divergence.is_none() {
                let show = |m: &BTreeSet<(String, Key, HLCTimestamp)>| json!(m.iter().map(|e| json!([e.0, e.1, ts_json(e.2)])).collect::<Vec<_>>());
                res.read_divergence = Some((
                    "background-repair-cycles-did-not-converge".into(),
                    json!({"node": nd.id, "live_documents": show(&got), "last_writer_wins": show(&expect), "waited": "3 repair intervals + 2 s after faults stopped"}),
                ));
            }
        }
        res.exchanges += 1; // counted as evidence that the background phase ran
    }

    // ---- final round (premise of the statement), established from repair_from's outcome
    let ksn: Vec<&str> = KEYSPACES.iter().take(cfg.n_keyspaces).copied().collect();
    match cluster.final_round(&mut rng, &ksn, 3).await {
        Ok(x) => res.exchanges = x,
        Err(why) => {
            res.inconclusive = Some(why);
            cluster.shutdown();
            return res;
        },
    }

    // ---- oracle: last writer wins over every operation that took effect anywhere
    let writes = cluster.all_writes();
    res.writes_logged = writes.len();
    let mut model: BTreeMap<(String, Key), (HLCTimestamp, Option<Vec<u8>>)> = BTreeMap::new();
    let mut per_issuer: BTreeMap<u8, BTreeMap<HLCTimestamp, BTreeSet<(String, Key, bool)>>> = BTreeMap::new();
    let (mut min_ts, mut max_ts) = (u128::MAX, 0u128);
    for w in &writes {
        let key = (w.keyspace.clone(), w.id);
        let e = model.entry(key).or_insert((w.ts, w.data.clone()));
        if w.ts > e.0 {
            *e = (w.ts, w.data.clone());
        }
        per_issuer.entry(w.ts.node()).or_default().entry(w.ts).or_default().insert((w.keyspace.clone(), w.id, w.data.is_none()));
        let ms = w.ts.datacake_timestamp().as_millis();
        min_ts = min_ts.min(ms);
        max_ts = max_ts.max(ms);
    }
    // preconditions re-checked on the recorded history
    if !writes.is_empty() && max_ts - min_ts >= 3_600_000 && tag == 1 {
        res.inconclusive = Some(format!("stamps span {} ms: not within one forgiveness period", max_ts - min_ts));
    }
    for (issuer, stamps) in &per_issuer {
        for (t, what) in stamps {
            // one stamp names one operation; a bulk call legitimately shares its stamp between its documents
            let kinds: BTreeSet<bool> = what.iter().map(|x| x.2).collect();
            if kinds.len() > 1 {
                res.inconclusive = Some(format!("node {issuer} issued stamp {t} for a put and a delete (clock artefact)"));
            }
        }
    }
    // conservation of operations: an operation carries ONE stamp wherever it travels, so the number of
    // distinct stamps of origin N seen anywhere for (keyspace, id, put-or-delete) cannot exceed the number
    // of such operations the clients issued at N - a re-stamped or fabricated operation shows as one too
    // many, whatever the final state is
    {
        let mut stamps: BTreeMap<(u8, String, Key, bool), BTreeSet<HLCTimestamp>> = BTreeMap::new();
        for w in &writes {
            stamps.entry((w.ts.node(), w.keyspace.clone(), w.id, w.data.is_none())).or_default().insert(w.ts);
        }
        for (k, set) in &stamps {
            let n_issued = issued.get(k).copied().unwrap_or(0);
            if set.len() as u64 > n_issued && res.read_divergence.is_none() {
                let where_: Vec<Value> = writes
                    .iter()
                    .filter(|w| w.ts.node() == k.0 && w.keyspace == k.1 && w.id == k.2 && w.data.is_none() == k.3)
                    .map(|w| json!({"written_at_node": w.node, "stamp": ts_json(w.ts)}))
                    .collect();
                res.read_divergence = Some((
                    format!("more-versions-of-an-origin-in-circulation-than-operations-issued:{}", if k.3 { "delete" } else { "put" }),
                    json!({"origin_node": k.0, "keyspace": k.1, "id": k.2, "kind": if k.3 { "delete" } else { "put" }, "operations_issued_there": n_issued,
                        "distinct_stamps_written_anywhere": set.iter().map(|t| ts_json(*t)).collect::<Vec<_>>(), "writes": where_}),
                ));
            }
        }
    }
    let expect: BTreeMap<(String, Key), (HLCTimestamp, Vec<u8>)> = model.iter().filter_map(|(k, (t, d))| d.clone().map(|d| (k.clone(), (*t, d)))).collect();
    let mut states = Vec::new();
    for nd in cluster.nodes.iter().filter(|n| n.up) {
        let h = nd.handle();
        let mut got: BTreeMap<(String, Key), (HLCTimestamp, Vec<u8>)> = BTreeMap::new();
        for ks in &ksn {
            // reads through the public API: get, get_many and iter_metadata must tell the same story
            let meta: Vec<_> = h.iter_metadata(ks).await.map(|m| m.collect::<Vec<_>>()).unwrap_or_default();
            let live_ids: BTreeSet<Key> = meta.iter().filter(|m| !m.2).map(|m| m.0).collect();
            let many: Vec<_> = h.get_many(ks, 0..cfg.n_ids).await.map(|d| d.collect::<Vec<_>>()).unwrap_or_default();
            let kh = h.with_keyspace(ks.to_string());
            for id in 0..cfg.n_ids {
                let r = if id % 2 == 1 { kh.get(id).await } else { h.get(ks, id).await };
                if let Ok(Some(d)) = r {
                    got.insert((ks.to_string(), id), (d.last_updated(), d.data().to_vec()));
                }
            }
            let got_ids: BTreeSet<Key> = got.keys().filter(|k| k.0 == *ks).map(|k| k.1).collect();
            let many_ids: BTreeSet<Key> = many.iter().map(|d| d.id()).collect();
            if got_ids != live_ids || got_ids != many_ids {
                res.read_divergence = Some((
                    "node-reads-inconsistent-with-its-own-metadata".into(),
                    json!({"node": nd.id, "keyspace": ks, "get": got_ids, "get_many": many_ids, "iter_metadata_live": live_ids}),
                ));
            }
        }
        states.push((nd.id, got));
    }
    if res.read_divergence.is_none() {
        for (id, got) in &states {
            if got != &expect {
                let show = |m: &BTreeMap<(String, Key), (HLCTimestamp, Vec<u8>)>| json!(m.iter().map(|(k, v)| json!([k.0, k.1, ts_json(v.0), v.1])).collect::<Vec<_>>());
                let others_agree = states.iter().all(|(_, g)| g == got);
                let what = if others_agree { "all-nodes-agree-but-not-on-the-last-writer" } else { "nodes-return-different-documents" };
                let lost_delete = got.keys().any(|k| !expect.contains_key(k));
                let class = if lost_delete { "deleted-document-still-live" } else if expect.keys().any(|k| !got.contains_key(k)) { "live-document-missing" } else { "stale-or-wrong-version" };
                // diagnostics: every storage write (in per-node log order) for the keys that differ
                let differing: BTreeSet<(String, Key)> = got.iter().filter(|(k, v)| expect.get(*k) != Some(*v)).map(|(k, _)| k.clone()).chain(expect.iter().filter(|(k, v)| got.get(*k) != Some(*v)).map(|(k, _)| k.clone())).collect();
                let mut log_dump = Vec::new();
                for nd in &cluster.nodes {
                    let l = nd.ctl.log.lock();
                    let entries: Vec<Value> = l.iter().filter(|w| differing.contains(&(w.keyspace.clone(), w.id))).map(|w| json!([w.keyspace, w.id, ts_json(w.ts), if w.data.is_some() { "put" } else { "del" }])).collect();
                    log_dump.push(json!({"node": nd.id, "up": nd.up, "writes_in_order": entries}));
                }
                let mut sets = Vec::new();
                for nd in cluster.nodes.iter().filter(|n| n.up) {
                    for ks in &ksn {
                        let ksm = nd.group().get_or_create_keyspace(ks).await;
                        if let Ok(set) = set_of(&ksm).await {
                            sets.push(json!({"node": nd.id, "keyspace": ks, "set": listing_json(&enumerate(&set))}));
                        }
                    }
                }
                res.read_divergence = Some((format!("{what}:{class}"), json!({"node": id, "reads": show(got), "last_writer_wins": show(&expect), "all_nodes": states.iter().map(|(i, g)| json!({"node": i, "reads": show(g)})).collect::<Vec<_>>(), "writes_for_differing_keys": log_dump, "sets": sets})));
                break;
            }
        }
    }
    // ---- set/store agreement on every node (C02 in cluster form)
    for nd in cluster.nodes.iter().filter(|n| n.up) {
        for ks in &ksn {
            let ksm = nd.group().get_or_create_keyspace(ks).await;
            if let (Ok(set), Ok(store)) = (set_of(&ksm).await, store_listing(nd.inner.as_ref(), ks).await) {
                let set = enumerate(&set);
                if set != store && res.set_store_disagreement.is_none() {
                    res.set_store_disagreement = Some(json!({"node": nd.id, "keyspace": ks, "set": listing_json(&set), "store": listing_json(&store)}));
                }
            }
        }
    }
    let c = chaos.lock();
    res.net = (c.stats.delivered, c.stats.dropped, c.stats.duplicated, c.stats.reply_dropped, c.stats.held);
    res.trace_hash = hash_of(&(c.trace_hash, format!("{:?}", res.ops_json)));
    res.nontrivial = c.stats.dropped + c.stats.duplicated + c.stats.reply_dropped + c.stats.held > 0;
    drop(c);
    res.distinct_final_state = hash_of(&format!("{expect:?}"));
    res.virtual_ms = t_start.elapsed().as_millis() as u64;
    cluster.shutdown();
    res
}

fn c01_cfg(rng: &mut StdRng, thorough: bool) -> ScenarioCfg {
    if rng.gen_bool(0.35) {
        // "sparse knowledge": a handful of operations on one or two ids, nearly all replication
        // messages lost, no background repair - every operation is known to its issuer only, so
        // the outcome rests entirely on the final round and on the ORDER of its exchanges
        return ScenarioCfg {
            n_nodes: rng.gen_range(3..=4),
            n_dcs: 1,
            n_keyspaces: 1,
            n_ids: rng.gen_range(1..=2),
            n_ops: rng.gen_range(2..=6),
            max_gap_ms: *[0u64, 50, 900].choose(rng).unwrap(),
            max_skew_ms: *[0i64, 40, 5_000].choose(rng).unwrap(),
            mix: [4, 90, 0, 3, 3],
            max_hold_ms: 2_500,
            late_join: false,
            restart: false,
            background_repair: false,
            explicit_purges: false,
            repair_interval: Duration::from_secs(100_000),
            none_only: rng.gen_bool(0.7),
        };
    }
    let n_nodes = *[2usize, 3, 3, 3, 4, 5].choose(rng).unwrap();
    ScenarioCfg {
        n_nodes,
        n_dcs: rng.gen_range(1..=2),
        n_keyspaces: rng.gen_range(1..=2),
        n_ids: rng.gen_range(3..=6),
        n_ops: rng.gen_range(5..if thorough { 40 } else { 26 }),
        max_gap_ms: *[0u64, 50, 900, 900].choose(rng).unwrap(),
        max_skew_ms: *[0i64, 40, 5_000, 600_000].choose(rng).unwrap(),
        mix: *[[45u32, 25, 10, 10, 10], [20, 55, 5, 10, 10], [60, 10, 10, 10, 10], [30, 20, 10, 10, 30]].choose(rng).unwrap(),
        max_hold_ms: 2_500,
        late_join: rng.gen_bool(0.3),
        restart: rng.gen_bool(0.3),
        background_repair: rng.gen_bool(0.5),
        explicit_purges: false,
        repair_interval: Duration::from_secs(7),
        none_only: false,
    }
}

fn cfg_json(c: &ScenarioCfg) -> Value {
    json!({"nodes": c.n_nodes, "dcs": c.n_dcs, "keyspaces": c.n_keyspaces, "ids": c.n_ids, "ops": c.n_ops, "max_gap_ms": c.max_gap_ms, "max_skew_ms": c.max_skew_ms,
        "verdict_mix_deliver_drop_dup_dropreply_hold": c.mix, "max_hold_ms": c.max_hold_ms, "late_join": c.late_join, "restart": c.restart, "none_only": c.none_only, "background_repair": c.background_repair, "explicit_purges": c.explicit_purges})
}

fn absorb_scenario(out: &mut CaseOut, r: &ScenarioResult, cfg: &ScenarioCfg, prop: &str, seed: u64, scen: u64, want_reads: bool, want_agreement: bool) {
    out.count("scenarios", 1);
    out.count("client_operations", r.ops as u64);
    out.count("storage_writes_logged", r.writes_logged as u64);
    out.count("repair_exchanges_completed", r.exchanges);
    out.count("messages_delivered", r.net.0);
    out.count("messages_dropped", r.net.1);
    out.count("messages_duplicated", r.net.2);
    out.count("replies_dropped", r.net.3);
    out.count("messages_held_and_reordered", r.net.4);
    out.count("tombstones_purged", r.tombstones_purged);
    out.count("operations_addressed_to_purged_ids", r.ops_on_purged_ids);
    out.count("virtual_seconds", r.virtual_ms / 1000);
    if cfg.late_join {
        out.count("scenarios_with_late_join", 1);
    }
    if cfg.restart {
        out.count("scenarios_with_restart", 1);
    }
    if let Some(why) = &r.inconclusive {
        out.inconclusive = Some(why.clone());
        return;
    }
    if r.nontrivial || r.tombstones_purged > 0 {
        out.nontrivial = Some(r.trace_hash);
    }
    let ctx = |d: &Value| json!({"config": cfg_json(cfg), "operations": r.ops_json, "observed": d, "messages": {"delivered": r.net.0, "dropped": r.net.1, "duplicated": r.net.2, "reply_dropped": r.net.3, "held": r.net.4}});
    if want_reads {
        if let Some((what, d)) = &r.read_divergence {
            out.violate(format!("{prop}:{what}"), ctx(d));
        }
    }
    if want_agreement {
        if let Some(d) = &r.set_store_disagreement {
            out.violate(format!("{prop}:set-and-store-disagree-at-end-of-cluster-scenario"), ctx(d));
        }
    }
    if !out.violations.is_empty() {
        out.replay = Some(json!({"seed": seed, "scenario": scen}));
    }
}

fn c01_case(seed: u64, scen: u64, thorough: bool, prop: &str, want_reads: bool, want_agreement: bool) -> CaseOut {
    let mut crng = rng_for(seed, 0xCF6, scen);
    let cfg = c01_cfg(&mut crng, thorough);
    let r = block_on_paused(convergence_scenario(seed, scen, &cfg, 1));
    let mut out = CaseOut::default();
    absorb_scenario(&mut out, &r, &cfg, prop, seed, scen, want_reads, want_agreement);
    if scen == 2 {
        out.sample = Some(json!({"config": cfg_json(&cfg), "operations": r.ops_json, "exchanges": r.exchanges, "writes_logged": r.writes_logged}));
    }
    out
}

const C01_RULE: &str = "one scenario = a real cluster of 2..5 nodes (1-2 DCs, MemStore behind a recording wrapper) on a virtual-time runtime: 5..40 put/del/put_many/del_many through the public handle at random nodes and consistency levels, 1-2 keyspaces, 3-6 ids, clocks skewed up to +-10 min; every ConsistencyService message (direct and batch) gets an independent verdict from a seeded policy - deliver / drop / duplicate / drop the reply / hold for up to 2.5 s (= reorder); real distributor (1 s batches), in half of the scenarios the real poller; optionally a node that joins late (after deletes) and a node stopped and restarted on its storage; 35 % of the scenarios are 'sparse knowledge' ones (2-6 operations on 1-2 ids, 90 % of the messages lost, no background repair, mostly Consistency::None) in which every operation is known to its issuer only and the result rests on the order of the final exchanges. Then faults stop, held messages drain, and node i pulls from node j (repair_from = real repair_members with a fresh tracker) for EVERY ordered pair in random order, failpoints choosing which half of each exchange is applied first; an exchange that did not complete is retried, else the scenario is inconclusive. Oracle: LWW over all storage writes recorded anywhere (the operations that took effect); every node's get / get_many / iter_metadata must equal it (ids, bytes, stamps). Conservation of operations: for every (origin node, keyspace, id, put-or-delete) the number of distinct stamps written anywhere must not exceed the number of such operations the clients issued at that node (an operation carries one stamp wherever it travels), so a re-stamped or fabricated operation is reported even when the cluster converges on it. Preconditions re-checked: stamps within 3600 s, one stamp never names a put and a delete. Second kind of scenario (40 000 quick): operations RACING a repair exchange - direct replication to the polling node lost, the polled node's storage slow (each write takes 0/2/5/20 virtual ms); when the state request is about to be delivered the monitor wakes a client and holds the request up to that long; the client issues one operation at once (the actor is busy, the state request queues behind it) and the scenario's last operation (put new id / overwrite / delete) a little later (queues behind the state request); in further variants the held request is the document fetch (FetchDocs) or the poll instead of the state request, and the racing operations are issued at the POLLING node (all direct replication lost), so that a newer local write races the application of an older fetched version; after 4 repair intervals the poller's own cycles must have converged every node to the LWW documents. Non-trivial = at least one message verdict was not 'deliver'; distinct = distinct hash of (operations, per-message verdict trace).";

/// Operations racing a repair exchange. Two or three nodes with the real poller; direct replication
/// to the polling node B is lost; the polled node A has SLOW storage (every write takes d virtual ms,
/// never fails), so its keyspace actor is busy for a while with each write. When B's GetState request
/// for the keyspace is about to be delivered (an existing suspension point: the transport), the monitor
/// wakes a client and holds the request for h <= d ms. The client issues one operation at once (the actor
/// becomes busy, the state request queues behind it) and a second one g <= 2d ms later (queues behind the
/// state request): the LAST operations of the scenario. Nothing else is disturbed. After 4 repair
/// intervals the poller's own cycles must have brought everything to every node (bounded progress),
/// whatever the interleaving with the exchange was.
async fn c01_race_scenario(seed: u64, scen: u64) -> CaseOut {
    let mut out = CaseOut::default();
    let mut rng = rng_for(seed, 0xC01_4ACE, scen);
    install_wall(vec![0; 8]);
    let n = if rng.gen_bool(0.7) { 2usize } else { 3 };
    let interval = Duration::from_millis(*[200u64, 1_000, 5_000].choose(&mut rng).unwrap());
    let chaos = new_chaos(rng.gen(), [100, 0, 0, 0, 0], 1);
    let mut cluster = Cluster { nodes: Vec::new(), chaos: chaos.clone(), repair_interval: interval };
    for i in 0..n {
        let id = (i + 1) as u8;
        let node = start_node(id, scen_addr(41, scen, id), "dc-0", Arc::new(MemStore::default()), Ctl::new(id), interval, true, None).await;
        cluster.nodes.push(node);
    }
    let (addr_a, addr_b) = (cluster.nodes[0].addr, cluster.nodes[1].addr);
    let d = *[0i64, 2, 5, 20].choose(&mut rng).unwrap();
    cluster.nodes[0].ctl.slow_ms.store(d, std::sync::atomic::Ordering::SeqCst);
    // what the second racing operation is: 0 = put a new id, 1 = overwrite the first document, 2 = delete it
    let kind = rng.gen_range(0..3u8);
    let hold_ms = rng.gen_range(0..=d.max(1)) as u64;
    let gap_ms = rng.gen_range(0..=(2 * d).max(1)) as u64;
    let (turns_transport, turns_client) = (rng.gen_range(0..6u32), rng.gen_range(0..6u32));
    let wake = Arc::new(tokio::sync::Notify::new());
    let seen_getstate = Arc::new(std::sync::atomic::AtomicU32::new(0));
    // which request of B's exchange with A is held: the state request, the request for the documents the
    // diff named, or the poll that precedes both
    let held_request = *["GetState", "GetState", "FetchDocs", "FetchDocs", "PollKeyspace"].choose(&mut rng).unwrap();
    // where the racing operations are issued: at the polled node A (they race the reading of A's state) or
    // at the polling node B (they race the application of what B fetched); in the second case no direct
    // replication gets through at all, so A still serves its old version while B already holds a newer one
    let race_at_b = rng.gen_bool(0.4);
    let hold_ms = if held_request == "GetState" && !race_at_b { hold_ms } else { rng.gen_range(0..=30u64) };
    for nd in &cluster.nodes {
        let (wake, seen) = (wake.clone(), seen_getstate.clone());
        rv::set_policy(
            nd.addr,
            Some(Arc::new(move |m: rv::MsgInfo| {
                let (wake, seen) = (wake.clone(), seen.clone());
                Box::pin(async move {
                    // direct replication never reaches B: repair has to carry everything
                    if m.uri.contains("ConsistencyService") && (m.to == addr_b || race_at_b) {
                        return rv::Verdict::Drop;
                    }
                    if m.to == addr_a && m.uri.contains(held_request) && seen.fetch_add(1, std::sync::atomic::Ordering::SeqCst) == 0 {
                        wake.notify_one();
                        if hold_ms > 0 {
                            tokio::time::sleep(Duration::from_millis(hold_ms)).await;
                        }
                        for _ in 0..turns_transport {
                            tokio::task::yield_now().await;
                        }
                    }
                    rv::Verdict::Deliver
                })
            })),
        );
    }
    cluster.publish_membership();
    tokio::time::sleep(Duration::from_millis(50)).await;
    let ks = "race";
    let ha = cluster.nodes[0].handle();
    // first operation: makes A's keyspace differ from B's, so that B's poller starts an exchange
    let first = ha.put(ks, 1, b"first".to_vec(), Consistency::None).await;
    if first.is_err() {
        out.inconclusive = Some(format!("setup put failed: {first:?}"));
        cluster.shutdown();
        return out;
    }
    let racer = {
        let (h, wake) = (if race_at_b { cluster.nodes[1].handle() } else { ha.clone() }, wake.clone());
        tokio::spawn(async move {
            wake.notified().await;
            let h1 = h.clone();
            let op1 = tokio::spawn(async move { h1.put(ks, 10, b"keeps-the-actor-busy".to_vec(), Consistency::None).await.map(|_| ()) });
            if gap_ms > 0 {
                tokio::time::sleep(Duration::from_millis(gap_ms)).await;
            }
            for _ in 0..turns_client {
                tokio::task::yield_now().await;
            }
            let r2 = match kind {
                0 => h.put(ks, 2, b"raced".to_vec(), Consistency::None).await.map(|_| ()),
                1 => h.put(ks, 1, b"raced-overwrite".to_vec(), Consistency::None).await.map(|_| ()),
                _ => h.del(ks, 1, Consistency::None).await.map(|_| ()),
            };
            let r1 = op1.await;
            r2.is_ok() && matches!(r1, Ok(Ok(())))
        })
    };
    let raced = tokio::time::timeout(interval * 6 + Duration::from_secs(5), racer).await;
    match raced {
        Ok(Ok(true)) => {},
        other => {
            out.inconclusive = Some(format!("the racing operations did not complete: {other:?}"));
            cluster.shutdown();
            return out;
        },
    }
    out.count("operations_racing_an_exchange", 2);
    out.counts.push((match (held_request, race_at_b) {
        ("GetState", false) => "races_state_request_held_ops_at_the_polled_node",
        ("GetState", true) => "races_state_request_held_ops_at_the_polling_node",
        ("FetchDocs", false) => "races_document_fetch_held_ops_at_the_polled_node",
        ("FetchDocs", true) => "races_document_fetch_held_ops_at_the_polling_node",
        (_, false) => "races_poll_held_ops_at_the_polled_node",
        (_, true) => "races_poll_held_ops_at_the_polling_node",
    }, 1));
    // bounded progress: four more repair intervals, nothing else happens
    tokio::time::sleep(interval * 4 + Duration::from_secs(2)).await;
    let writes = cluster.all_writes();
    let mut model: BTreeMap<Key, (HLCTimestamp, bool)> = BTreeMap::new();
    for w in writes.iter().filter(|w| w.keyspace == ks) {
        let e = model.entry(w.id).or_insert((w.ts, w.data.is_none()));
        if w.ts > e.0 {
            *e = (w.ts, w.data.is_none());
        }
    }
    let expect: BTreeSet<(Key, HLCTimestamp)> = model.iter().filter(|(_, v)| !v.1).map(|(k, v)| (*k, v.0)).collect();
    out.nontrivial = Some(hash_of(&("race", n, kind, d, hold_ms, gap_ms, turns_transport, turns_client, interval.as_millis() as u64, held_request, race_at_b)));
    for nd in &cluster.nodes {
        let got: BTreeSet<(Key, HLCTimestamp)> = match store_listing(nd.inner.as_ref(), ks).await {
            Ok((live, _)) => live.into_iter().collect(),
            Err(e) => {
                out.inconclusive = Some(e);
                break;
            },
        };
        if got != expect {
            let show = |m: &BTreeSet<(Key, HLCTimestamp)>| json!(m.iter().map(|e| json!([e.0, ts_json(e.1)])).collect::<Vec<_>>());
            out.violate(
                "C01:background-repair-cycles-did-not-converge:operation-raced-a-repair-exchange",
                json!({"node": nd.id, "live_documents": show(&got), "last_writer_wins": show(&expect), "second_racing_operation": (["put new id", "overwrite", "delete"][kind as usize]),
                    "storage_write_takes_ms": d, "held_request": held_request, "request_held_ms": hold_ms, "racing_operations_issued_at": (if race_at_b { "the polling node" } else { "the polled node" }), "second_operation_after_ms": gap_ms,
                    "turns_before_delivery": turns_transport, "turns_before_the_operation": turns_client, "repair_interval_ms": interval.as_millis() as u64,
                    "getstate_requests_seen": seen_getstate.load(std::sync::atomic::Ordering::SeqCst), "waited": "4 repair intervals + 2 s"}),
            );
            out.replay = Some(json!({"mode": "race", "seed": seed, "scenario": scen}));
            break;
        }
    }
    cluster.shutdown();
    out
}

pub fn c01(args: &Args) {
    let mut report = Report::new(args, "E2-cluster", C01_RULE);
    let thorough = args.tier == Tier::Thorough;
    if let Some(path) = &args.replay {
        let r = read_replay(path);
        if r["mode"] == "race" {
            report.absorb(block_on_paused(c01_race_scenario(r["seed"].as_u64().unwrap(), r["scenario"].as_u64().unwrap())));
        } else {
            report.absorb(c01_case(r["seed"].as_u64().unwrap(), r["scenario"].as_u64().unwrap(), true, "C01", true, false));
        }
        report.finish(args);
        return;
    }
    let seed = args.seed;
    let n = args.pick(40_000, 3_000_000);
    let part = args.opt_str("part");
    if part != Some("race") {
        run_cases(&mut report, n, args.threads, Duration::from_secs(args.pick(150, 3000)), |i| c01_case(seed, i, thorough, "C01", true, false));
    }
    let n_race = args.pick(40_000, 2_000_000);
    run_cases(&mut report, n_race, args.threads, Duration::from_secs(args.pick(60, 900)), |i| block_on_paused(c01_race_scenario(seed, i)));
    report.floor("operations_racing_an_exchange", 1_000);
    if part == Some("race") {
        report.finish(args);
        return;
    }
    report.floor("scenarios", 1_000);
    report.floor("repair_exchanges_completed", 5_000);
    report.floor("messages_dropped", 1_000);
    report.floor("scenarios_with_late_join", 100);
    report.floor("scenarios_with_restart", 100);
    report.finish(args);
}

/// C02 in cluster form: the same scenarios, judged on set/store agreement.
pub fn c02_cluster(args: &Args) {
    let mut report = Report::new(args, "E2-cluster", &format!("set/store agreement probe on every node at the end of the C01 scenarios: {C01_RULE}"));
    let thorough = args.tier == Tier::Thorough;
    if let Some(path) = &args.replay {
        let r = read_replay(path);
        report.absorb(c01_case(r["seed"].as_u64().unwrap(), r["scenario"].as_u64().unwrap(), true, "C02", false, true));
        report.finish(args);
        return;
    }
    let seed = args.seed.wrapping_add(7_777);
    let n = args.pick(20_000, 1_000_000);
    run_cases(&mut report, n, args.threads, Duration::from_secs(args.pick(100, 2000)), |i| c01_case(seed, i, thorough, "C02", false, true));
    report.floor("scenarios", 500);
    report.finish(args);
}

// ---------------------------------------------------------------------------
// C08 (cluster form)
// ---------------------------------------------------------------------------

fn c08_cfg(rng: &mut StdRng) -> ScenarioCfg {
    ScenarioCfg {
        n_nodes: *[2usize, 3, 3, 4].choose(rng).unwrap(),
        n_dcs: 1,
        n_keyspaces: 1,
        n_ids: 4,
        n_ops: rng.gen_range(10..30),
        // up to 40 virtual minutes between operations: histories span hours, the real hourly purge task fires
        max_gap_ms: 2_400_000,
        max_skew_ms: 600_000,
        // biased towards lost direct messages so that repair carries the data (both sources advance)
        mix: [20, 55, 5, 10, 10],
        max_hold_ms: 1_200_000,
        late_join: false,
        restart: false,
        background_repair: true,
        explicit_purges: true,
        repair_interval: Duration::from_secs(900),
        none_only: false,
    }
}

fn c08_case(seed: u64, scen: u64) -> CaseOut {
    let mut crng = rng_for(seed, 0xCF8, scen);
    let cfg = c08_cfg(&mut crng);
    let r = block_on_paused(convergence_scenario(seed, scen, &cfg, 8));
    let mut out = CaseOut::default();
    absorb_scenario(&mut out, &r, &cfg, "C08", seed, scen, true, true);
    if r.tombstones_purged > 0 {
        out.count("histories_in_which_tombstones_were_purged", 1);
    }
    if scen == 1 {
        out.sample = Some(json!({"config": cfg_json(&cfg), "operations": r.ops_json, "tombstones_purged": r.tombstones_purged, "virtual_hours": r.virtual_ms as f64 / 3_600_000.0}));
    }
    out
}

pub fn c08_cluster(args: &Args) {
    let mut report = Report::new(
        args,
        "E2-cluster",
        "timely hour-scale histories on a real 2..4 node cluster in virtual time: 10..30 operations up to 40 virtual minutes apart (3-10 virtual hours in total, so the real hourly purge task fires), clocks skewed up to +-10 min, 55 % of the direct messages lost and others held up to 20 min, the real poller repairing every 15 min (delivery delay + skew stays below the one hour forgiveness period by construction), explicit PurgeDeletes on a random node after 60 % of the operations. Final pairwise round as in C01; the result must equal the LWW model, i.e. the cluster that never purges: a resurrected id or a lost live id is the witness; set/store agreement checked too. Evidence counts tombstones actually purged and later operations addressed to purged ids. Non-trivial = faults occurred or tombstones were purged; distinct = distinct (operations, verdict trace).",
    );
    if let Some(path) = &args.replay {
        let r = read_replay(path);
        report.absorb(c08_case(r["seed"].as_u64().unwrap(), r["scenario"].as_u64().unwrap()));
        report.finish(args);
        return;
    }
    let seed = args.seed;
    let n = args.pick(3_000, 200_000);
    run_cases(&mut report, n, args.threads, Duration::from_secs(args.pick(150, 3000)), |i| c08_case(seed, i));
    report.floor("scenarios", 300);
    report.floor("tombstones_purged", 100);
    report.floor("operations_addressed_to_purged_ids", 20);
    report.finish(args);
}

// ---------------------------------------------------------------------------
// C06
// ---------------------------------------------------------------------------

#[derive(Clone, Copy, Debug, PartialEq, Eq)]
enum FailMode {
    None,
    StorageError,
    RequestDropped,
    ReplyDropped,
}

async fn holds(nd: &CNode, ks: &str, key: Key, min_ts: Option<HLCTimestamp>, is_del: bool) -> bool {
    let meta: Vec<_> = nd.inner.iter_metadata(ks).await.map(|m| m.collect::<Vec<_>>()).unwrap_or_default();
    meta.iter().any(|e| e.0 == key && (min_ts.map_or(e.2 == is_del, |t| e.1 > t || (e.1 == t && e.2 == is_del))))
}

/// One layout: every issuer position x every level x 4 operation kinds x a
/// set of failure assignments for the other nodes.
async fn c06_layout(seed: u64, scen: u64, layout: Vec<usize>, exhaustive_subsets: bool, outs: &mut Vec<CaseOut>) {
    let mut rng = rng_for(seed, 0xC06, scen);
    install_wall(vec![0; 16]);
    let chaos = new_chaos(rng.gen(), [100, 0, 0, 0, 0], 1);
    // the background poller is parked: under virtual time a repair exchange that hits an
    // injected storage error waits on a real-time (std::time::Instant) watchdog for 5 real
    // seconds. "Replicated later" is driven explicitly below instead.
    let repair = Duration::from_secs(1_000_000);
    let mut cluster = Cluster { nodes: Vec::new(), chaos: chaos.clone(), repair_interval: repair };
    let mut id = 0u8;
    for (d, cnt) in layout.iter().enumerate() {
        for _ in 0..*cnt {
            id += 1;
            let node = start_node(id, scen_addr(6, scen, id), &format!("dc-{d}"), Arc::new(MemStore::default()), Ctl::new(id), repair, true, None).await;
            install_policy(node.addr, &chaos);
            cluster.nodes.push(node);
        }
    }
    cluster.publish_membership();
    tokio::time::sleep(Duration::from_millis(50)).await;
    let n = cluster.nodes.len();
    let dc_of: Vec<usize> = layout.iter().enumerate().flat_map(|(d, c)| std::iter::repeat(d).take(*c)).collect();
    let mut key: Key = 1000;
    let ks = "ks";
    let mut pending_progress: Vec<(usize, Key, bool, Value)> = Vec::new();
    for me in 0..n {
        for level in LEVELS {
            let others: Vec<usize> = (0..n).filter(|i| *i != me).collect();
            // failure assignments: every subset of the other nodes (<= 2^5) with a rotating failure mode,
            // or a random sample of assignments
            let assignments: Vec<Vec<FailMode>> = if exhaustive_subsets && others.len() <= 5 {
                (0..(1u32 << others.len()))
                    .map(|mask| {
                        others.iter().enumerate().map(|(k, _)| if mask >> k & 1 == 1 { [FailMode::StorageError, FailMode::RequestDropped, FailMode::ReplyDropped][(mask as usize + k) % 3] } else { FailMode::None }).collect()
                    })
                    .collect()
            } else {
                (0..6)
                    .map(|_| others.iter().map(|_| if rng.gen_bool(0.35) { *[FailMode::StorageError, FailMode::RequestDropped, FailMode::ReplyDropped].choose(&mut rng).unwrap() } else { FailMode::None }).collect())
                    .collect()
            };
            for (ai, assign) in assignments.iter().enumerate() {
                let kind = (ai + me) % 4;
                key += 10;
                let mut out = CaseOut::default();
                // install the failures
                {
                    let mut c = chaos.lock();
                    c.forced.clear();
                    c.seen.clear();
                    for nd in &cluster.nodes {
                        nd.ctl.fail_all.store(false, Ordering::SeqCst);
                    }
                    for (k, o) in others.iter().enumerate() {
                        cluster.nodes[*o].ctl.fail_all.store(assign[k] == FailMode::StorageError, Ordering::SeqCst);
                        match assign[k] {
                            FailMode::RequestDropped => {
                                c.forced.insert(cluster.nodes[*o].addr, 1);
                            },
                            FailMode::ReplyDropped => {
                                c.forced.insert(cluster.nodes[*o].addr, 2);
                            },
                            _ => {},
                        }
                    }
                }
                // fresh selection: the selector caches per level for 2 real seconds; a membership update clears it
                cluster.publish_membership();
                tokio::time::sleep(Duration::from_millis(1)).await;
                let h = cluster.nodes[me].handle();
                let is_del = kind == 1 || kind == 3;
                let keys: Vec<Key> = if kind >= 2 { vec![key, key + 1] } else { vec![key] };
                if is_del {
                    // something to delete is not required: deletes of unknown ids are recorded as tombstones
                }
                // the identical call is sometimes issued a second time under the same failures (an
                // application retrying after an error, or simply writing the same bytes again): it is
                // judged by the same rules - nothing about the first call may be taken as done
                let attempts = if rng.gen_bool(0.35) { 2 } else { 1 };
                let mut desc = Value::Null;
                for attempt in 0..attempts {
                    if attempt == 1 {
                        chaos.lock().seen.clear();
                        out.count("identical_calls_repeated", 1);
                    }
                    let before_log = cluster.nodes[me].ctl.log.lock().len();
                    // (every other call goes through the keyspace-bound handle)
                    let kh = h.with_keyspace(ks);
                    let result = match (kind, key % 2 == 1) {
                        (0, false) => h.put(ks, key, vec![me as u8, ai as u8], level).await,
                        (1, false) => h.del(ks, key, level).await,
                        (2, false) => h.put_many(ks, keys.iter().map(|k| (*k, vec![1u8, 2, 3])).collect::<Vec<_>>(), level).await,
                        (_, false) => h.del_many(ks, keys.clone(), level).await,
                        (0, true) => kh.put(key, vec![me as u8, ai as u8], level).await,
                        (1, true) => kh.del(key, level).await,
                        (2, true) => kh.put_many(keys.iter().map(|k| (*k, vec![1u8, 2, 3])).collect::<Vec<_>>(), level).await,
                        (_, true) => kh.del_many(keys.clone(), level).await,
                    };
                    // the stamp the issuer assigned = stamp of its local write
                    let stamp = cluster.nodes[me].ctl.log.lock().iter().skip(before_log).find(|w| w.id == key).map(|w| w.ts);
                    let selected: BTreeSet<SocketAddr> = chaos.lock().seen.iter().filter(|s| !s.1.contains("BatchPayload")).map(|s| s.0).collect();
                    let layout_need = need(level, &layout, dc_of[me]);
                    let mut holders = 0;
                    for o in &others {
                        let mut all = true;
                        for k in &keys {
                            if !holds(&cluster.nodes[*o], ks, *k, stamp, is_del).await {
                                all = false;
                            }
                        }
                        if all {
                            holders += 1;
                        }
                    }
                    let mut local = true;
                    for k in &keys {
                        if !holds(&cluster.nodes[me], ks, *k, stamp, is_del).await {
                            local = false;
                        }
                    }
                    // acknowledgements the harness let through
                    let acks = others
                        .iter()
                        .enumerate()
                        .filter(|(k, o)| selected.contains(&cluster.nodes[**o].addr) && assign[*k] == FailMode::None)
                        .count();
                    desc = json!({"layout": layout, "issuer": me, "level": format!("{level:?}"), "kind": (["put", "del", "put_many", "del_many"][kind]),
                        "failures": assign.iter().map(|a| format!("{a:?}")).collect::<Vec<_>>(), "selected": selected.iter().map(|a| a.to_string()).collect::<Vec<_>>(),
                        "result": match &result { Ok(()) => "Ok".to_string(), Err(e) => e.to_string() }, "local_write_present": local, "other_nodes_holding_it": holders, "required_others": layout_need, "acks_let_through": acks});
                    out.count("calls", 1);
                    out.nontrivial = Some(hash_of(&(&layout, me, format!("{level:?}"), kind, format!("{assign:?}"))));
                    match &result {
                        Ok(()) => {
                            out.count("calls_ok", 1);
                            if !local {
                                out.violate(format!("C06:ok-but-local-write-missing:{level:?}"), desc.clone());
                            }
                            if holders < layout_need {
                                out.violate(format!("C06:ok-but-fewer-replicas-than-promised:{level:?}"), desc.clone());
                            }
                        },
                        Err(StoreError::ConsistencyError(ConsistencyError::ConsistencyFailure { responses, required, .. })) => {
                            out.count("calls_consistency_failure", 1);
                            if !local {
                                out.violate(format!("C06:consistency-error-but-local-write-missing:{level:?}"), desc.clone());
                            }
                            if *responses != acks {
                                out.violate(format!("C06:consistency-error-states-wrong-number-of-acknowledgements:{level:?}"), json!({"case": desc, "stated": responses, "required": required}));
                            }
                            if *responses >= *required {
                                out.violate(format!("C06:consistency-error-although-enough-acknowledged:{level:?}"), json!({"case": desc, "stated": responses, "required": required}));
                            }
                            pending_progress.push((me, keys[0], is_del, desc.clone()));
                        },
                        Err(StoreError::ConsistencyError(ConsistencyError::NotEnoughNodes { .. })) => {
                            out.count("calls_not_enough_nodes", 1); // no claim here (C15)
                        },
                        Err(e) => out.violate("C06:unexpected-error", json!({"case": desc, "error": e.to_string()})),
                    }
                }
                if ai == 3 && me == 0 {
                    out.sample = Some(desc);
                }
                if !out.violations.is_empty() {
                    out.replay = Some(json!({"seed": seed, "scenario": scen, "layout": layout}));
                }
                outs.push(out);
            }
        }
    }
    // ---- membership growth: a selection made (and cached by the selector actor) for the smaller
    // cluster must not be used once the issuer knows a node has joined
    {
        let mut c = chaos.lock();
        c.forced.clear();
        for nd in &cluster.nodes {
            nd.ctl.fail_all.store(false, Ordering::SeqCst);
        }
    }
    if n >= 1 {
        let issuer = 0usize;
        let h = cluster.nodes[issuer].handle();
        // warm the per-level selection cache for the current membership (no membership update in between)
        for level in LEVELS {
            key += 10;
            let _ = h.put(ks, key, vec![9], level).await;
        }
        id += 1;
        let joiner = start_node(id, scen_addr(6, scen, id), "dc-0", Arc::new(MemStore::default()), Ctl::new(id), repair, true, None).await;
        install_policy(joiner.addr, &chaos);
        cluster.nodes.push(joiner);
        cluster.publish_membership();
        tokio::time::sleep(Duration::from_millis(1)).await;
        let mut layout2 = layout.clone();
        layout2[0] += 1;
        let n2 = cluster.nodes.len();
        for level in LEVELS {
            key += 10;
            let mut out = CaseOut::default();
            chaos.lock().seen.clear();
            let before_log = cluster.nodes[issuer].ctl.log.lock().len();
            let result = h.put(ks, key, vec![7, 7], level).await;
            let stamp = cluster.nodes[issuer].ctl.log.lock().iter().skip(before_log).find(|w| w.id == key).map(|w| w.ts);
            let required = need(level, &layout2, 0);
            let mut holders = 0;
            for o in 0..n2 {
                if o != issuer && holds(&cluster.nodes[o], ks, key, stamp, false).await {
                    holders += 1;
                }
            }
            out.count("calls", 1);
            out.count("calls_right_after_a_join", 1);
            out.nontrivial = Some(hash_of(&(&layout, "join", format!("{level:?}"))));
            let desc = json!({"layout_before_join": layout, "layout_after_join": layout2, "issuer": issuer, "level": format!("{level:?}"),
                "result": match &result { Ok(()) => "Ok".to_string(), Err(e) => e.to_string() }, "other_nodes_holding_it": holders, "required_others": required});
            if result.is_ok() {
                out.count("calls_ok", 1);
                if holders < required {
                    out.violate(format!("C06:ok-but-fewer-replicas-than-promised:after-a-node-joined:{level:?}"), desc);
                    out.replay = Some(json!({"seed": seed, "scenario": scen, "layout": layout}));
                }
            }
            outs.push(out);
        }
    }

    // ---- "still replicated later": bounded progress. Lift every fault, wait two batch
    // windows and two repair intervals of virtual time, then every node must hold what failed calls wrote locally.
    {
        let mut c = chaos.lock();
        c.forced.clear();
        for nd in &cluster.nodes {
            nd.ctl.fail_all.store(false, Ordering::SeqCst);
        }
    }
    // two batch windows for the distributors, then one anti-entropy exchange of every node with every other
    tokio::time::sleep(Duration::from_secs(3)).await;
    let mut frng = rng_for(seed, 0xC06F, scen);
    let round = cluster.final_round(&mut frng, &[ks], 3).await;
    let mut out = CaseOut::default();
    if let Err(why) = &round {
        out.inconclusive = Some(format!("bounded-progress round: {why}"));
        pending_progress.clear();
    }
    for (me, key, is_del, desc) in pending_progress.iter() {
        out.count("failed_calls_followed_up", 1);
        for nd in &cluster.nodes {
            if !holds(nd, ks, *key, None, *is_del).await && !holds(nd, ks, *key, Some(HLCTimestamp::from_u64(0)), *is_del).await {
                out.violate(
                    "C06:locally-written-mutation-not-replicated-later",
                    json!({"issuer": me, "missing_on_node": nd.id, "key": key, "after": "faults lifted, 3 virtual s, one full pairwise anti-entropy round", "call": desc}),
                );
                out.replay = Some(json!({"seed": seed, "scenario": scen, "layout": layout}));
                break;
            }
        }
    }
    outs.push(out);
    cluster.shutdown();
}

pub fn c06_layouts(max_dc: usize, max_nodes: usize) -> Vec<Vec<usize>> {
    let mut v = Vec::new();
    for ndc in 1..=max_dc {
        let mut cur = vec![1usize; ndc];
        'outer: loop {
            v.push(cur.clone());
            let mut i = 0;
            loop {
                if i == ndc {
                    break 'outer;
                }
                cur[i] += 1;
                if cur[i] <= max_nodes {
                    break;
                }
                cur[i] = 1;
                i += 1;
            }
        }
    }
    v
}

pub fn c06(args: &Args) {
    let mut report = Report::new(
        args,
        "E2-cluster",
        "real clusters in virtual time, all 39 layouts of 1-3 DCs x 1-3 nodes, membership installed through the real watcher: for every issuer position x all 8 consistency levels x put/del/put_many/del_many x failure assignments for the other nodes (every subset for <= 5 others, rotating failure mode per node: remote storage error / request dropped / reply dropped). At the moment the call returns the issuer's and every peer's storage is read: Ok => the issuer holds the mutation (or a newer one) and at least need(L) other nodes do (0 / 1 / 2 / 3 / total/2 / local/2 / per-DC sum / all others); ConsistencyFailure{responses, required} => responses equals the acknowledgements the harness let through (selected AND request delivered AND remote storage succeeded AND reply not dropped; the selection is read off the policy log), responses < required, the local write is in storage, and after lifting the faults, two batch windows and one explicit pairwise anti-entropy round (bounded-progress restatement of 'still replicated later') every node holds it. A last phase lets a node join right after selections for every level were made (and cached by the selector actor) and writes again at every level: Ok must hold against the grown membership. NotEnoughNodes carries no claim here. Non-trivial: every call; distinct = distinct (layout, issuer, level, kind, failure assignment).",
    );
    let seed = args.seed;
    let all = c06_layouts(3, 3);
    // all 39 layouts in both tiers (2 s); thorough repeats them with 8 seeds for the sampled parts
    let layouts: Vec<Vec<usize>> = if args.tier == Tier::Thorough { (0..8).flat_map(|_| all.clone()).collect() } else { all };
    if let Some(path) = &args.replay {
        let r = read_replay(path);
        let layout: Vec<usize> = r["layout"].as_array().unwrap().iter().map(|v| v.as_u64().unwrap() as usize).collect();
        let mut outs = Vec::new();
        block_on_paused(c06_layout(r["seed"].as_u64().unwrap(), r["scenario"].as_u64().unwrap(), layout, true, &mut outs));
        for o in outs {
            report.absorb(o);
        }
        report.finish(args);
        return;
    }
    report.extra.insert("layouts".into(), json!(layouts));
    let n = layouts.len() as u64;
    let sub = Mutex::new(Vec::<CaseOut>::new());
    let before = report.evaluations;
    run_cases(&mut report, n, args.threads, Duration::from_secs(args.pick(200, 3000)), |i| {
        let mut outs = Vec::new();
        block_on_paused(c06_layout(seed, i, layouts[i as usize].clone(), true, &mut outs));
        sub.lock().append(&mut outs);
        CaseOut::default()
    });
    report.evaluations = before;
    for o in sub.into_inner() {
        report.absorb(o);
    }
    report.floor("calls", 1_000);
    report.floor("calls_ok", 300);
    report.floor("calls_consistency_failure", 300);
    report.floor("failed_calls_followed_up", 100);
    report.finish(args);
}

// ---------------------------------------------------------------------------
// C16 end to end
// ---------------------------------------------------------------------------

/// Peers join one at a time; a Consistency::None write must reach every live
/// peer through the distributor within two batch windows; after a peer left it
/// must no longer be addressed.
async fn c16_e2e_case(seed: u64, scen: u64, joins_before_store: bool) -> CaseOut {
    let mut out = CaseOut::default();
    let mut rng = rng_for(seed, 0xC16E, scen);
    install_wall(vec![0; 16]);
    let chaos = new_chaos(rng.gen(), [100, 0, 0, 0, 0], 1);
    let n = rng.gen_range(3..=5usize);
    let repair = Duration::from_secs(100_000); // keep the poller out of the picture: only the distributor may deliver
    let mut nodes: Vec<CNode> = Vec::new();
    // peers 2..n exist first (each knows only itself; they are only receivers here)
    for i in 1..n {
        let id = (i + 1) as u8;
        let node = start_node(id, scen_addr(16, scen, id), "dc", Arc::new(MemStore::default()), Ctl::new(id), repair, true, None).await;
        install_policy(node.addr, &chaos);
        nodes.push(node);
    }
    let addr1 = scen_addr(16, scen, 1);
    let me1 = ClusterMember::new(1, addr1, "dc".into());
    let mut membership: nv::NodeMembership = BTreeMap::from([(1u8, me1.clone())]);
    let node1;
    if joins_before_store {
        // node 1's membership layer sees the peers join one at a time BEFORE its store extension subscribes
        let clock = Clock::new(1);
        let network = RpcNetwork::default();
        let server = Server::verif_in_memory(addr1);
        let selector = nv::start_node_selector(addr1, Cow::Borrowed("dc"), DCAwareSelector).await;
        let stats = ClusterStatistics::default();
        let (snap_tx, snap_rx) = watch::channel(membership.clone());
        let changes = nv::spawn_membership_watcher(1, network.clone(), selector.clone(), stats.clone(), snap_rx);
        for nd in &nodes {
            membership.insert(nd.id, nd.member());
            snap_tx.send(membership.clone()).unwrap();
            tokio::time::sleep(Duration::from_millis(rng.gen_range(1..400))).await;
        }
        let handle = nv::new_handle(me1, clock, network, selector, stats, changes);
        let ctl = Ctl::new(1);
        let inner = Arc::new(MemStore::default());
        let hs = HStore::new(inner.clone(), ctl.clone());
        let alive = hs.alive.clone();
        let store = ecv::create_store(hs, repair, handle, &server).await.expect("store");
        node1 = CNode { id: 1, addr: addr1, dc: "dc".into(), ctl, inner, store: Some(store), snap_tx, _server: server, up: true, alive };
    } else {
        node1 = start_node(1, addr1, "dc", Arc::new(MemStore::default()), Ctl::new(1), repair, true, None).await;
        tokio::time::sleep(Duration::from_millis(10)).await;
        for nd in &nodes {
            membership.insert(nd.id, nd.member());
            node1.snap_tx.send(membership.clone()).unwrap();
            // the store's watcher task reads promptly: give it a turn between snapshots
            tokio::time::sleep(Duration::from_millis(rng.gen_range(1..400))).await;
        }
    }
    install_policy(addr1, &chaos);
    tokio::time::sleep(Duration::from_millis(50)).await;
    // ---- a None-level write must reach every live peer within two batch windows
    chaos.lock().seen.clear();
    let h = node1.handle();
    let r = h.put("ks", 1, b"hello".to_vec(), Consistency::None).await;
    if let Err(e) = r {
        out.inconclusive = Some(format!("local put failed: {e}"));
    }
    tokio::time::sleep(Duration::from_millis(2_200)).await;
    let mut missing = Vec::new();
    for nd in &nodes {
        if !holds(nd, "ks", 1, None, false).await {
            missing.push(nd.id);
        }
    }
    out.count("none_level_writes_followed", 1);
    out.count("peers_expected_to_receive", nodes.len() as u64);
    let desc = |extra: Value| json!({"peers": nodes.iter().map(|n| n.id).collect::<Vec<_>>(), "peers_joined_before_store_subscribed": joins_before_store, "observed": extra});
    if !missing.is_empty() {
        let sig = if joins_before_store { "C16:live-peer-not-addressed-by-replication:joined-before-subscription" } else { "C16:live-peer-not-addressed-by-replication:prompt-subscriber" };
        out.violate(sig, desc(json!({"peers_without_the_write_after_two_batch_windows": missing})));
    }
    // ---- one peer leaves: it must no longer be addressed
    let gone = nodes[rng.gen_range(0..nodes.len())].id;
    let gone_addr = nodes.iter().find(|n| n.id == gone).unwrap().addr;
    membership.remove(&gone);
    node1.snap_tx.send(membership.clone()).unwrap();
    tokio::time::sleep(Duration::from_millis(1_500)).await; // let a batch window pass so the distributor has read the change
    chaos.lock().seen.clear();
    let _ = h.put("ks", 2, b"after-leave".to_vec(), Consistency::None).await;
    tokio::time::sleep(Duration::from_millis(2_200)).await;
    let addressed: BTreeSet<SocketAddr> = chaos.lock().seen.iter().map(|s| s.0).collect();
    out.count("departures_followed", 1);
    if addressed.contains(&gone_addr) {
        out.violate("C16:departed-peer-still-addressed-by-replication", desc(json!({"departed": gone, "addressed": addressed.iter().map(|a| a.to_string()).collect::<Vec<_>>()})));
    }
    let mut still_missing = Vec::new();
    for nd in nodes.iter().filter(|n| n.id != gone) {
        if missing.is_empty() && !holds(nd, "ks", 2, None, false).await {
            still_missing.push(nd.id);
        }
    }
    if !still_missing.is_empty() {
        out.violate("C16:live-peer-not-addressed-after-another-peer-left", desc(json!({"departed": gone, "peers_without_the_second_write": still_missing})));
    }
    // ---- a remaining peer changes its address (same node id, new address, one delta carrying
    // left=[id@old] and joined=[id@new]): replication must follow it to the new address
    if !joins_before_store && missing.is_empty() {
        if let Some(mover) = nodes.iter().find(|n| n.id != gone) {
            let (mid, old_addr) = (mover.id, mover.addr);
            let new_addr = scen_addr(16, scen, mid + 100);
            let moved = start_node(mid, new_addr, "dc", Arc::new(MemStore::default()), Ctl::new(mid), repair, true, None).await;
            install_policy(new_addr, &chaos);
            membership.insert(mid, moved.member());
            node1.snap_tx.send(membership.clone()).unwrap();
            tokio::time::sleep(Duration::from_millis(1_500)).await;
            chaos.lock().seen.clear();
            let _ = h.put("ks", 3, b"after-move".to_vec(), Consistency::None).await;
            tokio::time::sleep(Duration::from_millis(2_200)).await;
            let addressed: BTreeSet<SocketAddr> = chaos.lock().seen.iter().map(|s| s.0).collect();
            out.count("address_changes_followed", 1);
            if !holds(&moved, "ks", 3, None, false).await {
                out.violate(
                    "C16:live-peer-not-addressed-after-it-changed-address",
                    desc(json!({"peer": mid, "old_address": old_addr.to_string(), "new_address": new_addr.to_string(), "addressed": addressed.iter().map(|a| a.to_string()).collect::<Vec<_>>()})),
                );
            }
            if addressed.contains(&old_addr) {
                out.violate("C16:old-address-still-addressed-after-address-change", desc(json!({"peer": mid, "old_address": old_addr.to_string()})));
            }
            rv::unregister(new_addr);
        }
    }
    out.nontrivial = Some(hash_of(&(scen, joins_before_store, n, gone)));
    if !out.violations.is_empty() {
        out.replay = Some(json!({"mode": "e2e", "seed": seed, "scenario": scen, "joins_before_store": joins_before_store}));
    }
    if scen == 0 {
        out.sample = Some(desc(json!({"departed": gone, "addressed_after_departure": addressed.iter().map(|a| a.to_string()).collect::<Vec<_>>()})));
    }
    for nd in &nodes {
        rv::unregister(nd.addr);
    }
    rv::unregister(addr1);
    datacake_crdt::verif::set_wall(None);
    out
}

/// The repair poller's member list: node 1 runs the real poller (interval 2 s) with two steady peers; a
/// further node joins and leaves again (optionally flapping: leave, join, leave; or moving to a new address
/// before it leaves) with 50..400 ms between the membership snapshots, i.e. usually several events between
/// two poller ticks. Once membership is quiescent the poller must poll exactly the live peers.
async fn c16_poller_case(seed: u64, scen: u64) -> CaseOut {
    let mut out = CaseOut::default();
    let mut rng = rng_for(seed, 0xC16_9011, scen);
    install_wall(vec![0; 16]);
    let chaos = new_chaos(rng.gen(), [100, 0, 0, 0, 0], 1);
    let interval = Duration::from_secs(2);
    let mut nodes: Vec<CNode> = Vec::new();
    for id in [2u8, 3, 4] {
        let node = start_node(id, scen_addr(46, scen, id), "dc", Arc::new(MemStore::default()), Ctl::new(id), Duration::from_secs(100_000), true, None).await;
        install_policy(node.addr, &chaos);
        nodes.push(node);
    }
    let node1 = start_node(1, scen_addr(46, scen, 1), "dc", Arc::new(MemStore::default()), Ctl::new(1), interval, true, None).await;
    install_policy(node1.addr, &chaos);
    let mut membership: nv::NodeMembership = BTreeMap::from([(1u8, node1.member())]);
    for nd in &nodes[..2] {
        membership.insert(nd.id, nd.member());
    }
    node1.snap_tx.send(membership.clone()).unwrap();
    tokio::time::sleep(interval * 2 + Duration::from_millis(rng.gen_range(0..2_000))).await;
    // ---- the fourth node comes and goes
    let flapper = &nodes[2];
    let moved_addr = scen_addr(46, scen, 104);
    let moved = start_node(4, moved_addr, "dc", Arc::new(MemStore::default()), Ctl::new(4), Duration::from_secs(100_000), true, None).await;
    install_policy(moved_addr, &chaos);
    let script: &[&str] = match rng.gen_range(0..4) {
        0 => &["join", "leave"],
        1 => &["join", "leave", "join", "leave"],
        2 => &["join", "move", "leave"],
        _ => &["join", "leave", "join", "move", "leave"],
    };
    for step in script {
        match *step {
            "join" => {
                membership.insert(4, flapper.member());
            },
            "move" => {
                membership.insert(4, moved.member());
            },
            _ => {
                membership.remove(&4);
            },
        }
        node1.snap_tx.send(membership.clone()).unwrap();
        tokio::time::sleep(Duration::from_millis(rng.gen_range(50..400))).await;
    }
    // ---- quiescent: let the poller settle, then watch two full cycles
    tokio::time::sleep(interval * 3).await;
    chaos.lock().seen_repair.clear();
    tokio::time::sleep(interval * 2 + Duration::from_millis(200)).await;
    let polled: BTreeSet<SocketAddr> = chaos.lock().seen_repair.iter().copied().collect();
    out.count("quiescent_poller_windows_observed", 1);
    out.count("membership_events_for_the_passing_node", script.len() as u64);
    out.nontrivial = Some(hash_of(&("poller", scen, script)));
    let desc = |extra: Value| json!({"script_for_node_4": script, "polled_in_two_quiescent_cycles": polled.iter().map(|a| a.to_string()).collect::<Vec<_>>(), "observed": extra});
    for gone in [flapper.addr, moved_addr] {
        if polled.contains(&gone) {
            out.violate("C16:departed-node-still-polled-by-repair", desc(json!({"departed_node": 4, "address": gone.to_string()})));
        }
    }
    for nd in &nodes[..2] {
        if !polled.contains(&nd.addr) {
            out.violate("C16:live-peer-not-polled-by-repair", desc(json!({"peer": nd.id})));
        }
    }
    if !out.violations.is_empty() {
        out.replay = Some(json!({"mode": "poller", "seed": seed, "scenario": scen}));
    }
    for nd in &nodes {
        rv::unregister(nd.addr);
    }
    rv::unregister(moved_addr);
    rv::unregister(node1.addr);
    datacake_crdt::verif::set_wall(None);
    out
}

/// Membership changes handed to the store DURING A BURST OF WRITES: node 1 (poller parked) with two
/// steady peers issues 100..10 000 Consistency::None puts within one batching interval (no virtual time
/// passes), and while the task distributor still has all of them queued a further peer joins and one of the
/// steady peers leaves. Afterwards membership is quiescent: the next None-level write must reach the
/// joined peer within two batch windows and must not be addressed to the departed one.
async fn c16_burst_case(seed: u64, scen: u64) -> CaseOut {
    let mut out = CaseOut::default();
    let mut rng = rng_for(seed, 0xC16_B0057, scen);
    install_wall(vec![0; 16]);
    let chaos = new_chaos(rng.gen(), [100, 0, 0, 0, 0], 1);
    let repair = Duration::from_secs(100_000);
    let mut nodes: Vec<CNode> = Vec::new();
    for id in [2u8, 3, 4] {
        let node = start_node(id, scen_addr(56, scen, id), "dc", Arc::new(MemStore::default()), Ctl::new(id), repair, true, None).await;
        install_policy(node.addr, &chaos);
        nodes.push(node);
    }
    let node1 = start_node(1, scen_addr(56, scen, 1), "dc", Arc::new(MemStore::default()), Ctl::new(1), repair, true, None).await;
    install_policy(node1.addr, &chaos);
    let mut membership: nv::NodeMembership = BTreeMap::from([(1u8, node1.member())]);
    for nd in &nodes[..2] {
        membership.insert(nd.id, nd.member());
    }
    node1.snap_tx.send(membership.clone()).unwrap();
    tokio::time::sleep(Duration::from_millis(1_200 + rng.gen_range(0..900))).await;
    let h = node1.handle();
    let burst = *[100u64, 1_000, 4_000, 4_200, 5_000, 10_000].choose(&mut rng).unwrap();
    let bulk = rng.gen_bool(0.3);
    let t_before = tokio::time::Instant::now();
    let mut k = 0u64;
    while k < burst {
        let r = if bulk && k + 4 <= burst {
            let docs: Vec<(Key, Vec<u8>)> = (0..4).map(|j| (1_000 + k + j, vec![7u8])).collect();
            k += 4;
            h.put_many("ks", docs, Consistency::None).await.map(|_| ())
        } else if k % 5 == 4 {
            k += 1;
            h.del("ks", 1_000 + k - 2, Consistency::None).await.map(|_| ())
        } else {
            k += 1;
            h.put("ks", 1_000 + k - 1, vec![7u8], Consistency::None).await.map(|_| ())
        };
        if let Err(e) = r {
            out.inconclusive = Some(format!("burst write failed: {e}"));
            break;
        }
    }
    let burst_took = t_before.elapsed();
    // the burst is still queued at the distributor (its next tick is up to 1 s away): membership changes now
    let joins = rng.gen_bool(0.8);
    let leaves = rng.gen_bool(0.6) || !joins;
    let (joined, gone) = (&nodes[2], &nodes[1]);
    if joins {
        membership.insert(joined.id, joined.member());
        node1.snap_tx.send(membership.clone()).unwrap();
        tokio::time::sleep(Duration::from_millis(1)).await;
    }
    if leaves {
        membership.remove(&gone.id);
        node1.snap_tx.send(membership.clone()).unwrap();
        tokio::time::sleep(Duration::from_millis(1)).await;
    }
    // quiescent from here on
    tokio::time::sleep(Duration::from_millis(2_500)).await;
    chaos.lock().seen.clear();
    let r = h.put("ks", 7, b"after-the-burst".to_vec(), Consistency::None).await;
    if let Err(e) = r {
        out.inconclusive = Some(format!("local put failed: {e}"));
    }
    tokio::time::sleep(Duration::from_millis(2_200)).await;
    let addressed: BTreeSet<SocketAddr> = chaos.lock().seen.iter().map(|s| s.0).collect();
    out.count("write_bursts_followed_by_membership_changes", 1);
    out.count("writes_issued_in_bursts", burst);
    if burst >= 4_096 {
        out.count("bursts_of_more_than_4096_writes_in_one_batch_window", 1);
    }
    let desc = |extra: Value| json!({"writes_in_the_burst": burst, "bulk_calls": bulk, "virtual_ms_the_burst_took": burst_took.as_millis() as u64, "peer_joined_during_the_burst": joins, "peer_left_during_the_burst": leaves,
        "addressed_by_the_next_write": addressed.iter().map(|a| a.to_string()).collect::<Vec<_>>(), "observed": extra});
    if burst_took > Duration::from_millis(900) {
        out.inconclusive = Some(format!("the burst took {burst_took:?} of virtual time: not inside one batch window"));
    } else {
        if joins && !holds(joined, "ks", 7, None, false).await {
            out.violate("C16:live-peer-not-addressed-by-replication:joined-during-a-burst-of-writes", desc(json!({"peer_without_the_write_after_two_batch_windows": joined.id})));
        }
        if !holds(&nodes[0], "ks", 7, None, false).await {
            out.violate("C16:live-peer-not-addressed-by-replication:steady-peer-after-a-burst-of-writes", desc(json!({"peer_without_the_write_after_two_batch_windows": nodes[0].id})));
        }
        if leaves && addressed.contains(&gone.addr) {
            out.violate("C16:departed-peer-still-addressed-by-replication:left-during-a-burst-of-writes", desc(json!({"departed": gone.id})));
        }
    }
    out.nontrivial = Some(hash_of(&("burst", scen, burst, bulk, joins, leaves)));
    if !out.violations.is_empty() {
        out.replay = Some(json!({"mode": "burst", "seed": seed, "scenario": scen}));
    }
    if scen == 0 {
        out.sample = Some(desc(json!("sample")));
    }
    for nd in &nodes {
        rv::unregister(nd.addr);
    }
    rv::unregister(node1.addr);
    datacake_crdt::verif::set_wall(None);
    out
}

pub fn c16_e2e(args: &Args) {
    let mut report = Report::new(
        args,
        "E2-cluster",
        "end to end: 2..4 peers join node 1 one at a time, either after node 1's store extension subscribed (prompt subscriber) or BEFORE it was created (late subscriber); the repair poller is parked (interval 100 000 s) so only the task distributor can deliver. A Consistency::None put on node 1 must be in every live peer's storage after two batch windows; then one peer leaves the membership and, a batch window later, another None put must not be addressed to it (requests per destination counted by the transport policy) while the remaining peers still receive it; finally a remaining peer changes its address (same id, one delta with left=[id@old] joined=[id@new]) and a third put must arrive at the new address and not be sent to the old one. Second scenario (the repair poller's member list): node 1 runs the real poller (2 s) with two steady peers; a further node joins and leaves (or flaps, or moves to a new address before leaving) with 50..400 ms between the snapshots - usually several events between two poller ticks; once membership is quiescent, two full poller cycles are watched at the transport: exactly the live peers must be polled, never the departed node's addresses. Third scenario (membership changes during a burst of writes): node 1 with two steady peers issues 100..10 000 None-level puts / deletes / bulk puts within one batching interval (no virtual time passes) and, while the task distributor still has them all queued, a further peer joins and / or a steady peer leaves; membership is quiescent afterwards: the next None-level write must reach the joined peer and the remaining steady peer within two batch windows and must not be addressed to the departed one. Non-trivial: every scenario; distinct = (scenario, mode, peers, departed).",
    );
    if let Some(path) = &args.replay {
        let r = read_replay(path);
        if r["mode"] == "poller" {
            report.absorb(block_on_paused(c16_poller_case(r["seed"].as_u64().unwrap(), r["scenario"].as_u64().unwrap())));
        } else if r["mode"] == "burst" {
            report.absorb(block_on_paused(c16_burst_case(r["seed"].as_u64().unwrap(), r["scenario"].as_u64().unwrap())));
        } else {
            report.absorb(block_on_paused(c16_e2e_case(r["seed"].as_u64().unwrap(), r["scenario"].as_u64().unwrap(), r["joins_before_store"].as_bool().unwrap())));
        }
        report.finish(args);
        return;
    }
    let seed = args.seed;
    let n = args.pick(4_000, 200_000);
    run_cases(&mut report, n, args.threads, Duration::from_secs(args.pick(100, 1500)), |i| block_on_paused(c16_e2e_case(seed, i, i % 2 == 1)));
    let n_poller = args.pick(2_000, 100_000);
    run_cases(&mut report, n_poller, args.threads, Duration::from_secs(args.pick(100, 1500)), |i| block_on_paused(c16_poller_case(seed, i)));
    let n_burst = args.pick(96, 3_000);
    run_cases(&mut report, n_burst, args.threads, Duration::from_secs(args.pick(100, 1500)), |i| block_on_paused(c16_burst_case(seed, i)));
    report.floor("bursts_of_more_than_4096_writes_in_one_batch_window", 20);
    report.floor("quiescent_poller_windows_observed", 500);
    report.floor("none_level_writes_followed", 200);
    report.floor("departures_followed", 200);
    report.floor("address_changes_followed", 100);
    report.finish(args);
}
