//! Engine E6: every bundled storage backend against a map reference model (C17).
use std::collections::{BTreeMap, BTreeSet};
use std::path::{Path, PathBuf};
use std::time::Duration;

use datacake_crdt::HLCTimestamp;
use datacake_eventual_consistency::test_utils::MemStore;
use datacake_eventual_consistency::{Document, DocumentMetadata, Storage};
use rand::prelude::*;
use serde_json::{json, Value};

use crate::common::*;
use crate::crdt::ts_json;

type Model = BTreeMap<String, BTreeMap<u64, (HLCTimestamp, Option<Vec<u8>>)>>;

/// Keyspace names of a sequence: unicode / spaces / a slash; names that look like numbers (equal as numbers,
/// different as text); names differing in case only. Chosen per sequence.
const KS_SETS: [[&str; 3]; 3] = [["alpha", "β-keyspace ü", "k 3/with space"], ["7", "007", "7.0"], ["Users", "users", "1e2"]];
thread_local! {
    static KS_SET: std::cell::Cell<usize> = const { std::cell::Cell::new(0) };
}
fn ks_names() -> [&'static str; 3] {
    KS_SETS[KS_SET.with(|c| c.get())]
}
const EDGE_IDS: [u64; 7] = [0, 1, 2, 1 << 31, (1 << 63) - 1, 1 << 63, u64::MAX];

#[derive(Clone, Copy, PartialEq, Eq, Debug)]
pub enum Backend {
    Mem,
    SqliteFile,
    SqliteMem,
    Lmdb,
}

impl Backend {
    fn name(&self) -> &'static str {
        match self {
            Backend::Mem => "memstore",
            Backend::SqliteFile => "sqlite-file",
            Backend::SqliteMem => "sqlite-memory",
            Backend::Lmdb => "lmdb",
        }
    }
}

struct Fail {
    what: String,
    detail: Value,
}

fn short(d: &Option<Vec<u8>>) -> Value {
    match d {
        None => json!("tombstone"),
        Some(b) => json!({"len": b.len(), "fnv": format!("{:x}", fnv(b))}),
    }
}

fn fnv(data: &[u8]) -> u64 {
    let mut h = 0xcbf29ce484222325u64;
    for b in data {
        h ^= *b as u64;
        h = h.wrapping_mul(0x100000001b3);
    }
    h
}

/// `only`: restrict the per-keyspace reads to one keyspace (the oracle must not touch
/// every keyspace after every call: a backend may derive answers from what was accessed).
async fn compare<S: Storage>(st: &S, m: &Model, ids: &BTreeSet<u64>, mentioned: &BTreeSet<String>, after: &str, reads: &mut u64, only: Option<&str>) -> Result<(), Fail> {
    // the keyspace list is asked FIRST, before this oracle touches the other keyspaces: a
    // backend that derives the list from what has been accessed so far must not be helped
    let list: BTreeSet<String> = st
        .get_keyspace_list()
        .await
        .map_err(|e| Fail { what: format!("get_keyspace_list-error:after-{after}"), detail: json!(e.to_string()) })?
        .into_iter()
        .collect();
    *reads += 1;
    for (ks, e) in m {
        if !e.is_empty() && !list.contains(ks) {
            return Err(Fail { what: format!("keyspace-with-entries-not-listed:after-{after}"), detail: json!({"keyspace": ks, "listed": list}) });
        }
    }
    for l in &list {
        // reads by this oracle count as "passing the name to a call"
        if !mentioned.contains(l) && !ks_names().contains(&l.as_str()) {
            return Err(Fail { what: format!("never-used-keyspace-listed:after-{after}"), detail: json!({"keyspace": l}) });
        }
    }
    for ks in ks_names() {
        if only.map_or(false, |o| o != ks) {
            continue;
        }
        let exp = m.get(ks).cloned().unwrap_or_default();
        let mut got: Vec<_> = st
            .iter_metadata(ks)
            .await
            .map_err(|e| Fail { what: format!("iter_metadata-error:after-{after}"), detail: json!({"keyspace": ks, "error": e.to_string()}) })?
            .collect();
        *reads += 1;
        got.sort();
        let mut want: Vec<_> = exp.iter().map(|(k, (t, d))| (*k, *t, d.is_none())).collect();
        want.sort();
        if got != want {
            let missing: Vec<_> = want.iter().filter(|w| !got.contains(w)).map(|w| json!([w.0, ts_json(w.1), w.2])).collect();
            let extra: Vec<_> = got.iter().filter(|g| !want.contains(g)).map(|g| json!([g.0, ts_json(g.1), g.2])).collect();
            let kind = if !missing.is_empty() && extra.is_empty() && missing.iter().all(|x| x[2] == true) {
                "tombstone-missing"
            } else {
                "differs"
            };
            return Err(Fail { what: format!("iter_metadata-{kind}:after-{after}"), detail: json!({"keyspace": ks, "missing": missing, "unexpected": extra}) });
        }
        for id in ids {
            let g = st
                .get(ks, *id)
                .await
                .map_err(|e| Fail { what: format!("get-error:after-{after}"), detail: json!({"keyspace": ks, "id": id, "error": e.to_string()}) })?
                .map(|d| (d.id(), d.last_updated(), d.data().to_vec()));
            *reads += 1;
            let w = exp.get(id).and_then(|(t, d)| d.clone().map(|d| (*id, *t, d)));
            if g != w {
                return Err(Fail {
                    what: format!("get-differs:after-{after}"),
                    detail: json!({"keyspace": ks, "id": id, "got": g.map(|x| json!([x.0, ts_json(x.1), short(&Some(x.2))])), "want": w.map(|x| json!([x.0, ts_json(x.1), short(&Some(x.2))]))}),
                });
            }
        }
        // multi_get over all interesting ids (present and absent), order free
        let ask: Vec<u64> = ids.iter().copied().collect();
        let mg = st.multi_get(ks, ask.clone().into_iter()).await.map_err(|e| Fail {
            what: format!("multi_get-error:after-{after}:{}", if ask.iter().any(|i| *i > i64::MAX as u64) { "ids-above-i64-max" } else { "small-ids" }),
            detail: json!({"keyspace": ks, "ids": ask, "error": e.to_string()}),
        })?;
        *reads += 1;
        let mut g: Vec<_> = mg.map(|d| (d.id(), d.last_updated(), d.data().to_vec())).collect();
        g.sort();
        let mut w: Vec<_> = exp.iter().filter(|(k, _)| ids.contains(k)).filter_map(|(k, (t, d))| d.clone().map(|d| (*k, *t, d))).collect();
        w.sort();
        if g != w {
            return Err(Fail {
                what: format!("multi_get-differs:after-{after}"),
                detail: json!({"keyspace": ks, "got_ids": g.iter().map(|x| x.0).collect::<Vec<_>>(), "want_ids": w.iter().map(|x| x.0).collect::<Vec<_>>()}),
            });
        }
    }
    Ok(())
}

struct Driver {
    rng: StdRng,
    model: Model,
    ids: BTreeSet<u64>,
    mentioned: BTreeSet<String>,
    trace: Vec<Value>,
    live_bytes: usize,
    byte_budget: usize,
    tombstones_made: u64,
    calls: u64,
    reads: u64,
    /// how many very large bulk calls (hundreds to ~1600 items) this sequence may still make
    big_left: u32,
    big_items: u64,
    big_calls_with_repeated_ids: u64,
    lookups_first: u64,
}

/// Batch sizes around the limits bulk implementations chunk at.
const BIG_BATCHES: [usize; 14] = [255, 256, 257, 499, 500, 511, 512, 513, 999, 1000, 1001, 1023, 1024, 1025];

impl Driver {
    /// Size of the next bulk call: usually 0..4, at most `big_left` times per sequence a very large one.
    fn bulk_size(&mut self) -> usize {
        if self.big_left > 0 && self.rng.gen_bool(0.3) {
            self.big_left -= 1;
            match self.rng.gen_range(0..10) {
                0..=4 => *BIG_BATCHES.choose(&mut self.rng).unwrap(),
                5 | 6 => self.rng.gen_range(300..1_600),
                // medium sizes: beyond what small-input fast paths of sorts / chunking handle
                _ => *[20usize, 21, 32, 33, 34, 48, 64, 65, 100, 128, 199].choose(&mut self.rng).unwrap(),
            }
        } else {
            self.rng.gen_range(0..5)
        }
    }

    /// Ids of a very large batch: a dense block (small payloads keep the sequence cheap).
    fn block_ids(&mut self, n: usize) -> Vec<u64> {
        let base: u64 = if self.rng.gen_bool(0.5) { self.rng.gen_range(0..1_000) } else { self.rng.gen_range(0..u64::MAX - 4_000) };
        let ids: Vec<u64> = (0..n as u64).map(|j| base + j).collect();
        self.ids.extend(ids.iter().copied());
        self.big_items += n as u64;
        ids
    }

    fn gen_ts(&mut self) -> HLCTimestamp {
        let secs = match self.rng.gen_range(0..6) {
            0 => 0,
            1 => u32::MAX as u64,
            2 => (1 << 31) + self.rng.gen_range(0..3),
            _ => self.rng.gen_range(0..u32::MAX as u64),
        };
        HLCTimestamp::new(
            Duration::from_secs(secs) + Duration::from_millis(self.rng.gen_range(0..250) * 4),
            *[0u16, 1, 255, 256, 65_535, self.rng.gen()].choose(&mut self.rng).unwrap(),
            *[0u8, 1, 255, self.rng.gen()].choose(&mut self.rng).unwrap(),
        )
    }

    fn gen_id(&mut self) -> u64 {
        let id = if self.rng.gen_bool(0.7) { *EDGE_IDS.choose(&mut self.rng).unwrap() } else { self.rng.gen() };
        self.ids.insert(id);
        id
    }

    fn gen_payload(&mut self) -> Vec<u8> {
        let n = *[0usize, 0, 1, 7, 300, 4096, 70_000, 262_144].choose(&mut self.rng).unwrap();
        let n = if self.live_bytes + n > self.byte_budget { 7 } else { n };
        let seed: u8 = self.rng.gen();
        (0..n).map(|i| (i as u8).wrapping_mul(31).wrapping_add(seed)).collect()
    }

    fn recount(&mut self) {
        self.live_bytes = self.model.values().flat_map(|m| m.values()).map(|(_, d)| d.as_ref().map(|b| b.len()).unwrap_or(0)).sum();
    }

    async fn drive<S: Storage>(&mut self, st: &S, steps: usize) -> Result<(), Fail> {
        // in half of the segments (a segment = one lifetime of the opened store) some keyspaces are first
        // touched by a point lookup, before any write of this lifetime
        if self.rng.gen_bool(0.5) {
            for ks in ks_names() {
                if self.rng.gen_bool(0.6) {
                    self.mentioned.insert(ks.to_string());
                    let id = self.gen_id();
                    let want = self.model.get(ks).and_then(|m| m.get(&id)).and_then(|v| v.1.clone().map(|d| (v.0, d)));
                    let got = if self.rng.gen_bool(0.5) {
                        st.get(ks, id).await.map(|d| d.map(|d| (d.last_updated(), d.data().to_vec())))
                    } else {
                        st.multi_get(ks, [id].into_iter()).await.map(|mut it| it.next().map(|d| (d.last_updated(), d.data().to_vec())))
                    };
                    self.trace.push(json!({"lookup_first_in_this_lifetime": [ks, id]}));
                    self.lookups_first += 1;
                    match got {
                        Ok(g) if g == want => {},
                        Ok(g) => return Err(Fail { what: "get-differs:first-lookup-of-a-lifetime".into(), detail: json!({"keyspace": ks, "id": id, "got_len": g.map(|x| x.1.len()), "want_len": want.map(|x| x.1.len())}) }),
                        Err(e) => return Err(Fail { what: "get-error".into(), detail: json!({"error": e.to_string()}) }),
                    }
                }
            }
        }
        for _ in 0..steps {
            let ks = *ks_names().choose(&mut self.rng).unwrap();
            self.mentioned.insert(ks.to_string());
            let op = self.rng.gen_range(0..12);
            let call;
            let err = |call: &str, e: String| Fail { what: format!("{call}-error"), detail: json!({"error": e}) };
            match op {
                0 | 1 => {
                    let (id, ts, d) = (self.gen_id(), self.gen_ts(), self.gen_payload());
                    call = "put";
                    self.trace.push(json!({"put": [ks, id, ts_json(ts), d.len()]}));
                    st.put(ks, Document::new(id, ts, d.clone())).await.map_err(|e| err(call, e.to_string()))?;
                    self.model.entry(ks.into()).or_default().insert(id, (ts, Some(d)));
                },
                2 => {
                    let (id, ts, d) = (self.gen_id(), self.gen_ts(), self.gen_payload());
                    call = "put_with_ctx";
                    self.trace.push(json!({"put_with_ctx": [ks, id, ts_json(ts), d.len()]}));
                    st.put_with_ctx(ks, Document::new(id, ts, d.clone()), None).await.map_err(|e| err(call, e.to_string()))?;
                    self.model.entry(ks.into()).or_default().insert(id, (ts, Some(d)));
                },
                3 | 4 => {
                    let n = self.bulk_size();
                    let mut docs = Vec::new();
                    let mut repeated = Vec::new();
                    if n >= 20 {
                        for id in self.block_ids(n) {
                            let ts = self.gen_ts();
                            let d: Vec<u8> = (0..self.rng.gen_range(0..3u8)).map(|b| b ^ id as u8).collect();
                            docs.push(Document::new(id, ts, d));
                        }
                        // ids repeated inside one large bulk call (model: applied in iteration order, the last one stays)
                        if self.rng.gen_bool(0.6) {
                            for _ in 0..self.rng.gen_range(1..6) {
                                let id = docs.choose(&mut self.rng).map(|d: &Document| d.id()).unwrap();
                                let pos = self.rng.gen_range(0..=docs.len());
                                let (ts, d) = (self.gen_ts(), vec![0xD0u8, self.rng.gen(), self.rng.gen()]);
                                docs.insert(pos, Document::new(id, ts, d));
                                repeated.push(json!([id, ts_json(ts)]));
                            }
                            self.big_calls_with_repeated_ids += 1;
                        }
                    }
                    for _ in 0..(if n >= 20 { 0 } else { n }) {
                        // duplicates inside one bulk call happen (model: applied in iteration order)
                        let id = if !docs.is_empty() && self.rng.gen_bool(0.2) { docs.choose(&mut self.rng).map(|d: &Document| d.id()).unwrap() } else { self.gen_id() };
                        let (ts, d) = (self.gen_ts(), self.gen_payload());
                        docs.push(Document::new(id, ts, d));
                    }
                    call = "multi_put";
                    if docs.len() >= 20 {
                        self.trace.push(json!({"multi_put": [ks, {"items": docs.len(), "first_id": docs.iter().map(|d| d.id()).min(), "ids": "a dense block from first_id", "ids_named_twice_(id,stamp_of_the_inserted_copy)": repeated}]}));
                    } else {
                        self.trace.push(json!({"multi_put": [ks, docs.iter().map(|d| json!([d.id(), ts_json(d.last_updated()), d.data().len()])).collect::<Vec<_>>()]}));
                    }
                    st.multi_put(ks, docs.clone().into_iter()).await.map_err(|e| err(call, e.to_string()))?;
                    for d in docs {
                        self.model.entry(ks.into()).or_default().insert(d.id(), (d.last_updated(), Some(d.data().to_vec())));
                    }
                },
                5 | 6 => {
                    let (id, ts) = (self.gen_id(), self.gen_ts());
                    call = "mark_as_tombstone";
                    self.trace.push(json!({"mark_as_tombstone": [ks, id, ts_json(ts)]}));
                    st.mark_as_tombstone(ks, id, ts).await.map_err(|e| err(call, e.to_string()))?;
                    self.model.entry(ks.into()).or_default().insert(id, (ts, None));
                    self.tombstones_made += 1;
                },
                7 | 8 => {
                    let n = self.bulk_size();
                    let docs: Vec<DocumentMetadata> = if n >= 20 {
                        self.block_ids(n).into_iter().map(|id| DocumentMetadata::new(id, self.gen_ts())).collect()
                    } else {
                        (0..n).map(|_| DocumentMetadata::new(self.gen_id(), self.gen_ts())).collect()
                    };
                    call = "mark_many_as_tombstone";
                    if docs.len() >= 20 {
                        self.trace.push(json!({"mark_many_as_tombstone": [ks, {"items": docs.len(), "first_id": docs[0].id, "ids": "first_id .. first_id+items"}]}));
                    } else {
                        self.trace.push(json!({"mark_many_as_tombstone": [ks, docs.iter().map(|d| json!([d.id, ts_json(d.last_updated)])).collect::<Vec<_>>()]}));
                    }
                    st.mark_many_as_tombstone(ks, docs.clone().into_iter()).await.map_err(|e| err(call, e.to_string()))?;
                    for d in docs {
                        self.model.entry(ks.into()).or_default().insert(d.id, (d.last_updated, None));
                        self.tombstones_made += 1;
                    }
                },
                9 | 10 => {
                    // the contract only allows removing ids which are tombstones
                    let tomb: Vec<u64> = self.model.get(ks).map(|e| e.iter().filter(|(_, v)| v.1.is_none()).map(|(k, _)| *k).collect()).unwrap_or_default();
                    let pick: Vec<u64> = tomb.into_iter().filter(|_| self.rng.gen_bool(0.6)).collect();
                    call = "remove_tombstones";
                    if pick.len() >= 200 {
                        self.trace.push(json!({"remove_tombstones": [ks, {"items": pick.len()}]}));
                    } else {
                        self.trace.push(json!({"remove_tombstones": [ks, pick]}));
                    }
                    st.remove_tombstones(ks, pick.clone().into_iter()).await.map_err(|e| err(call, e.to_string()))?;
                    for k in pick {
                        self.model.get_mut(ks).unwrap().remove(&k);
                    }
                },
                _ => {
                    call = "read-only";
                    self.trace.push(json!("read-only step"));
                },
            }
            self.calls += 1;
            self.recount();
            let ids = self.ids.clone();
            // half of the time only the keyspace just used is read back (plus the keyspace list)
            let only = if self.rng.gen_bool(0.5) { Some(ks) } else { None };
            compare(st, &self.model, &ids, &self.mentioned, call, &mut self.reads, only).await?;
        }
        Ok(())
    }
}

fn thread_count() -> usize {
    std::fs::read_dir("/proc/self/task").map(|d| d.count()).unwrap_or(0)
}

/// Waits until the process is back to `baseline` threads, i.e. the storage backend's worker
/// thread (a plain std::thread started at open) has completely exited. Deterministic
/// replacement for a settle delay.
async fn wait_for_backend_threads_to_exit(baseline: usize) {
    for _ in 0..2_000 {
        if thread_count() <= baseline {
            return;
        }
        tokio::time::sleep(Duration::from_millis(1)).await;
    }
}

fn scratch_root() -> PathBuf {
    scratch_dir("c17")
}

async fn c17_sequence(backend: Backend, seed: u64, i: u64, root: &Path) -> CaseOut {
    let mut out = CaseOut::default();
    // two sequences in five use the number-like / case-variant keyspace names
    KS_SET.with(|c| c.set(match i % 5 { 1 => 1, 3 => 2, _ => 0 }));
    out.counts.push((match i % 5 { 1 => "sequences_on_number_like_keyspace_names", 3 => "sequences_on_case_variant_keyspace_names", _ => "sequences_on_unicode_keyspace_names" }, 1));
    let mut d = Driver {
        rng: rng_for(seed, 0xC17 + backend as u64, i),
        model: Model::new(),
        ids: BTreeSet::new(),
        mentioned: BTreeSet::new(),
        trace: Vec::new(),
        live_bytes: 0,
        byte_budget: if backend == Backend::Lmdb { 2 << 20 } else { 6 << 20 },
        tombstones_made: 0,
        calls: 0,
        reads: 0,
        // one sequence in eight makes one very large bulk call
        big_left: if i % 8 == 2 { 1 } else { 0 },
        big_items: 0,
        big_calls_with_repeated_ids: 0,
        lookups_first: 0,
    };
    let segments = if matches!(backend, Backend::SqliteFile | Backend::Lmdb) { d.rng.gen_range(2..=4) } else { 1 };
    let total_steps = d.rng.gen_range(20..=60);
    let mut reopens = 0u64;
    let mut failure: Option<Fail> = None;
    let path = root.join(format!("{}-{}-{}", backend.name(), seed, i));
    for seg in 0..segments {
        let steps = if seg + 1 == segments { total_steps - (total_steps / segments) * (segments - 1) } else { total_steps / segments };
        let ids = d.ids.clone();
        let res = match backend {
            Backend::Mem => {
                let st = MemStore::default();
                d.drive(&st, steps).await
            },
            Backend::SqliteMem => match datacake_sqlite::SqliteStorage::open_in_memory().await {
                Ok(st) => d.drive(&st, steps).await,
                Err(e) => Err(Fail { what: "open-error".into(), detail: json!(e.to_string()) }),
            },
            Backend::SqliteFile => match datacake_sqlite::SqliteStorage::open(&path).await {
                Ok(st) => {
                    let mut r = Ok(());
                    if seg > 0 {
                        reopens += 1;
                        d.trace.push(json!("close + reopen"));
                        if d.rng.gen_bool(0.5) {
                            r = compare(&st, &d.model, &ids, &d.mentioned, "reopen", &mut d.reads, None).await;
                        }
                    }
                    if r.is_ok() {
                        r = d.drive(&st, steps).await;
                    }
                    drop(st);
                    // the worker thread owns the connection: give it a moment to close the file
                    tokio::time::sleep(Duration::from_millis(3)).await;
                    r
                },
                Err(e) => Err(Fail { what: "open-error".into(), detail: json!(e.to_string()) }),
            },
            Backend::Lmdb => {
                let _ = std::fs::create_dir_all(&path);
                // make sure tokio's blocking pool thread (used by the open) already exists, then
                // remember how many threads there are without an open environment
                let _ = tokio::task::spawn_blocking(|| {}).await;
                let baseline = thread_count();
                match datacake_lmdb::LmdbStorage::open(&path).await {
                    Ok(st) => {
                        let mut r = Ok(());
                        if seg > 0 {
                            reopens += 1;
                            d.trace.push(json!("close + reopen"));
                            if d.rng.gen_bool(0.5) {
                            r = compare(&st, &d.model, &ids, &d.mentioned, "reopen", &mut d.reads, None).await;
                        }
                        }
                        if r.is_ok() {
                            r = d.drive(&st, steps).await;
                        }
                        // Shutdown order matters: the backend's worker thread drops its Env clone and
                        // then exits, and at thread exit LMDB's reader-slot destructor touches the
                        // environment's lock table. If the LAST Env clone is dropped on this thread at
                        // that moment, mdb_env_close unmaps the table under the destructor (SIGSEGV in
                        // mdb_env_reader_dest). So: keep one clone alive, let the worker exit completely,
                        // only then close the environment.
                        let env = st.handle().env().clone();
                        drop(st);
                        wait_for_backend_threads_to_exit(baseline).await;
                        env.prepare_for_closing().wait();
                        r
                    },
                    Err(e) => Err(Fail { what: "open-error".into(), detail: json!(e.to_string()) }),
                }
            },
        };
        if let Err(f) = res {
            failure = Some(f);
            break;
        }
    }
    match backend {
        Backend::SqliteFile => {
            let _ = std::fs::remove_file(&path);
            let _ = std::fs::remove_file(path.with_extension("db-wal"));
            let _ = std::fs::remove_file(format!("{}-journal", path.display()));
            let _ = std::fs::remove_file(format!("{}-wal", path.display()));
            let _ = std::fs::remove_file(format!("{}-shm", path.display()));
        },
        Backend::Lmdb => {
            let _ = std::fs::remove_dir_all(&path);
        },
        _ => {},
    }
    out.count("storage_calls", d.calls);
    out.count("oracle_reads", d.reads);
    out.count("tombstones_written", d.tombstones_made);
    out.count("items_in_very_large_bulk_calls", d.big_items);
    out.count("large_bulk_calls_naming_an_id_twice", d.big_calls_with_repeated_ids);
    out.count("keyspaces_first_touched_by_a_lookup_in_a_lifetime", d.lookups_first);
    out.count("reopens", reopens);
    out.counts.push((
        match backend {
            Backend::Mem => "sequences_memstore",
            Backend::SqliteFile => "sequences_sqlite_file",
            Backend::SqliteMem => "sequences_sqlite_memory",
            Backend::Lmdb => "sequences_lmdb",
        },
        1,
    ));
    if d.tombstones_made > 0 && (reopens > 0 || matches!(backend, Backend::Mem | Backend::SqliteMem)) {
        out.nontrivial = Some(hash_of(&(backend.name(), format!("{:?}", d.trace))));
    }
    if let Some(f) = failure {
        let tail: Vec<Value> = d.trace.iter().rev().take(12).rev().cloned().collect();
        out.violate(format!("C17:{}:{}", backend.name(), f.what), json!({"why": f.detail, "last_calls": tail, "calls_before_failure": d.calls}));
        out.replay = Some(json!({"backend": backend.name(), "seed": seed, "index": i}));
    }
    if i == 0 {
        out.sample = Some(json!({"backend": backend.name(), "first_calls": d.trace.iter().take(10).cloned().collect::<Vec<_>>(), "segments": segments}));
    }
    out
}

fn backend_from(s: &str) -> Backend {
    match s {
        "memstore" => Backend::Mem,
        "sqlite-file" => Backend::SqliteFile,
        "sqlite-memory" => Backend::SqliteMem,
        _ => Backend::Lmdb,
    }
}

pub fn c17(args: &Args) {
    let mut report = Report::new(
        args,
        "E6-storage",
        "generated sequences of 20..60 Storage calls allowed by the contract (put, put_with_ctx, multi_put incl. duplicate ids and - one sequence in eight - a bulk call of 255..1600 items around the 256/500/512/1000/1024 boundaries, mark_as_tombstone also before any put, mark_many_as_tombstone, remove_tombstones only on tombstoned ids) over 3 keyspaces (unicode, spaces), ids from {0,1,2,2^31,2^63-1,2^63,2^64-1} + random u64, payloads 0 B..256 KiB, arbitrary stamps (seconds 0..2^32-1, all fractional/counter/node edges) against MemStore, SQLite (file with 1-3 close/reopen cycles, in-memory) and LMDB (1-3 close/reopen cycles). After EVERY call: get of every id used so far, multi_get (order free), iter_metadata (as a set) for all keyspaces (isolation), keyspace list (must contain every keyspace holding entries, must not contain a never-mentioned name) compared with a map model. Non-trivial = sequence wrote a tombstone and (for persistent backends) was reopened; distinct = distinct call traces.",
    );
    let root = scratch_root();
    if let Some(path) = &args.replay {
        let r = read_replay(path);
        let backend = backend_from(r["backend"].as_str().unwrap());
        if let Some(b) = r["batch"].as_array() {
            // a batch of LMDB sequences whose process died: run it here, the driver sees the crash
            let rt = lmdb_runtime();
            for i in b[0].as_u64().unwrap()..b[1].as_u64().unwrap() {
                let out = rt.block_on(c17_sequence(backend, r["seed"].as_u64().unwrap(), i, &root));
                report.absorb(out);
            }
            std::mem::forget(rt);
            let _ = std::fs::remove_dir_all(&root);
            report.finish(args);
            return;
        }
        let fut = c17_sequence(backend, r["seed"].as_u64().unwrap(), r["index"].as_u64().unwrap(), &root);
        let out = if backend == Backend::Lmdb {
            let rt = lmdb_runtime();
            let out = rt.block_on(fut);
            std::mem::forget(rt);
            out
        } else {
            block_on_real(2, fut)
        };
        report.absorb(out);
        let _ = std::fs::remove_dir_all(&root);
        report.finish(args);
        return;
    }
    let seed = args.seed;
    let per_backend = args.opt_u64("per-backend", args.pick(320, 20_000));
    let in_process: Vec<Backend> = match args.opt_str("backend") {
        Some("lmdb") => vec![],
        Some(b) => vec![backend_from(b)],
        None => vec![Backend::Mem, Backend::SqliteFile, Backend::SqliteMem],
    };
    let root2 = root.clone();
    if !in_process.is_empty() {
        let nb = in_process.len() as u64;
        let ip = in_process.clone();
        run_cases(&mut report, per_backend * nb, args.threads, Duration::from_secs(args.pick(240, 3000)), move |i| {
            let backend = ip[(i % nb) as usize];
            block_on_real(0, c17_sequence(backend, seed, i / nb, &root2))
        });
    }
    // LMDB sequences run in child processes (one long-lived runtime each, pool threads
    // never exit), so that a crash inside liblmdb cannot take the monitor down and is
    // classified by the parent. The crash seen during development was a shutdown race
    // between the backend's exiting worker thread and the close of the environment; the
    // shutdown order in c17_sequence avoids it (see the comment there).
    if args.opt_str("backend").map_or(true, |b| b == "lmdb") {
        let exe = std::env::current_exe().expect("own path");
        let children = args.threads.max(1) as u64;
        let per_child = (per_backend + children - 1) / children;
        let budget = args.pick(240, 3000).to_string();
        let spawn = |c: u64, attempt: u32| {
            let (from, to) = (c * per_child, ((c + 1) * per_child).min(per_backend));
            let out = root.join(format!("lmdb-child-{c}-{attempt}.json"));
            let err = root.join(format!("lmdb-child-{c}-{attempt}.err"));
            let _ = std::fs::create_dir_all(&root);
            let child = std::fs::File::create(&err).and_then(|errf| {
                std::process::Command::new(&exe)
                    .arg("C17-lmdb-batch")
                    .args(["--seed", &seed.to_string(), "--from", &from.to_string(), "--to", &to.to_string()])
                    .args(["--budget", &budget])
                    .arg("--out")
                    .arg(&out)
                    .stderr(errf)
                    .spawn()
            });
            (out, err, child)
        };
        // Ok(report) or Err(how the child ended + the end of its stderr)
        let finish = |out: &Path, err: &Path, child: std::io::Result<std::process::Child>| -> Result<Value, String> {
            let status = child.and_then(|mut ch| ch.wait());
            match (&status, std::fs::read(out)) {
                (Ok(st), Ok(bytes)) if st.success() => Ok(serde_json::from_slice(&bytes).unwrap_or(Value::Null)),
                _ => {
                    let text = std::fs::read_to_string(err).unwrap_or_default();
                    let tail: String = text.lines().rev().take(25).collect::<Vec<_>>().into_iter().rev().collect::<Vec<_>>().join("\n");
                    Err(format!("{status:?}\n{tail}"))
                },
            }
        };
        let mut procs = Vec::new();
        for c in 0..children {
            if c * per_child < per_backend {
                procs.push((c, spawn(c, 0)));
            }
        }
        for (c, (out, err, child)) in procs {
            match finish(&out, &err, child) {
                Ok(v) => report.merge_child(&v),
                Err(first) => {
                    // A child that died is run once more: a crash which the same sequences reproduce is the
                    // backend's (violation); one that does not come back is recorded and the second run counts.
                    report.count("lmdb_child_retries", 1);
                    let (out2, err2, child2) = spawn(c, 1);
                    match finish(&out2, &err2, child2) {
                        Ok(v) => {
                            report.merge_child(&v);
                            report.extra.insert(format!("lmdb_child_{c}_first_attempt"), json!(first));
                        },
                        Err(second) => {
                            let (from, to) = (c * per_child, ((c + 1) * per_child).min(per_backend));
                            report.add_violation(
                                Violation {
                                    signature: "C17:lmdb-process-died-reproducibly".into(),
                                    detail: json!({"sequences": [from, to], "seed": seed, "first_attempt": first, "second_attempt": second}),
                                },
                                Some(json!({"backend": "lmdb", "seed": seed, "batch": [from, to]})),
                            );
                        },
                    }
                },
            }
        }
    }
    let _ = std::fs::remove_dir_all(&root);
    // floors only for the backends this run was asked to drive
    let selected = args.opt_str("backend");
    for (k, b) in [("sequences_memstore", "memstore"), ("sequences_sqlite_file", "sqlite-file"), ("sequences_sqlite_memory", "sqlite-memory"), ("sequences_lmdb", "lmdb")] {
        if selected.map_or(true, |s| s == b) {
            report.floor(k, 50.min(per_backend));
        }
    }
    if selected.map_or(true, |s| s != "memstore" && s != "sqlite-memory") {
        report.floor("reopens", 100.min(per_backend));
    }
    report.floor("tombstones_written", 1000.min(per_backend * 3));
    report.floor("items_in_very_large_bulk_calls", 2_000.min(per_backend * 10));
    report.finish(args);
}

/// The runtime LMDB sequences run on: one scheduler thread and exactly one, never exiting,
/// blocking-pool thread, so that the process' thread count identifies the backend's worker.
fn lmdb_runtime() -> tokio::runtime::Runtime {
    tokio::runtime::Builder::new_current_thread()
        .enable_all()
        .thread_keep_alive(Duration::from_secs(1_000_000))
        .max_blocking_threads(1)
        .build()
        .unwrap()
}

/// Child entry point: `mon C17-lmdb-batch --from A --to B --out O`.
pub fn c17_lmdb_batch(args: &Args) {
    let mut report = Report::new(args, "E6-storage-lmdb-child", "child");
    let (from, to) = (args.opt_u64("from", 0), args.opt_u64("to", 0));
    let budget = Duration::from_secs(args.opt_u64("budget", 240));
    let root = scratch_root();
    let rt = lmdb_runtime();
    let seed = args.seed;
    let t0 = std::time::Instant::now();
    // self-test of the parent's crash handling (seeded/self/selftest.py): die like liblmdb would
    match std::env::var("VERIF_SELFTEST_LMDB_CRASH").as_deref() {
        Ok("always") if from == 0 => std::process::abort(),
        Ok("once") if from == 0 && args.out.as_ref().map_or(false, |o| o.to_string_lossy().ends_with("-0.json")) => std::process::abort(),
        _ => {},
    }
    for i in from..to {
        if t0.elapsed() > budget {
            report.extra.insert("watchdog".into(), json!(format!("budget reached after {} of {} sequences", i - from, to - from)));
            break;
        }
        let out = rt.block_on(c17_sequence(Backend::Lmdb, seed, i, &root));
        report.absorb(out);
    }
    let _ = std::fs::remove_dir_all(&root);
    report.finish(args);
    // never let the runtime's pool threads exit (see c17): leave without unwinding them
    std::mem::forget(rt);
    std::process::exit(0);
}
