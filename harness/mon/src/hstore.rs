//! A storage wrapper used by the actor-level and cluster-level monitors:
//! records every write, can fail a call (bulk calls after n documents) and can
//! "crash" inside a call (perform the inner write of the first n documents,
//! then never return). Which documents of a partly failed bulk call were written rotates between
//! the leading ones, the smallest ids, the trailing ones and every other one.
use std::sync::atomic::{AtomicBool, AtomicI64, Ordering};
use std::sync::Arc;

use datacake_crdt::{HLCTimestamp, Key};
use datacake_eventual_consistency::test_utils::{MemStore, MemStoreError};
use datacake_eventual_consistency::{BulkMutationError, Document, DocumentMetadata, PutContext, Storage};
use parking_lot::Mutex;

#[derive(Clone, Debug)]
pub struct Write {
    pub node: u8,
    pub keyspace: String,
    pub id: Key,
    pub ts: HLCTimestamp,
    /// Some(bytes) = put, None = tombstone
    pub data: Option<Vec<u8>>,
}

pub struct Ctl {
    pub node: u8,
    /// >= 0: the next mutating call fails; bulk calls first apply that many documents
    pub fail_after: AtomicI64,
    /// >= 0: the next mutating call applies that many documents and then never returns
    pub park_after: AtomicI64,
    /// every mutating call fails (without writing) while set
    pub fail_all: AtomicBool,
    pub log: Mutex<Vec<Write>>,
    pub calls: AtomicI64,
    /// > 0: every mutating call takes that many (tokio) milliseconds before it writes: slow storage, never failing
    pub slow_ms: AtomicI64,
    /// > 0: every iter_metadata call (what the start-up loader reads) takes that many milliseconds
    pub slow_read_ms: AtomicI64,
}

impl Ctl {
    pub fn new(node: u8) -> Arc<Ctl> {
        Arc::new(Ctl {
            node,
            fail_after: AtomicI64::new(-1),
            park_after: AtomicI64::new(-1),
            fail_all: AtomicBool::new(false),
            log: Mutex::new(Vec::new()),
            calls: AtomicI64::new(0),
            slow_ms: AtomicI64::new(0),
            slow_read_ms: AtomicI64::new(0),
        })
    }
}

pub trait Backing: Storage {
    fn injected_error() -> Self::Error;
}

impl Backing for MemStore {
    fn injected_error() -> MemStoreError {
        MemStoreError(std::io::Error::new(std::io::ErrorKind::Other, "injected storage failure").into())
    }
}

impl Backing for datacake_sqlite::SqliteStorage {
    fn injected_error() -> rusqlite_error::Error {
        rusqlite_error::Error::InvalidQuery
    }
}

impl Backing for datacake_lmdb::LmdbStorage {
    fn injected_error() -> heed::Error {
        heed::Error::Io(std::io::Error::new(std::io::ErrorKind::Other, "injected storage failure"))
    }
}

/// rusqlite is not a direct dependency of the harness: name its error type
/// through the storage trait.
pub mod rusqlite_error {
    pub type Error = <datacake_sqlite::SqliteStorage as datacake_eventual_consistency::Storage>::Error;
}

pub struct HStore<I: Backing> {
    pub inner: Arc<I>,
    pub ctl: Arc<Ctl>,
    /// false once the node incarnation owning this handle was stopped: whatever
    /// of its tasks is still scheduled (the harness cannot kill them the way a
    /// process exit would) must not reach the storage the next incarnation runs on
    pub alive: Arc<AtomicBool>,
}

impl<I: Backing> HStore<I> {
    pub fn new(inner: Arc<I>, ctl: Arc<Ctl>) -> Self {
        Self { inner, ctl, alive: Arc::new(AtomicBool::new(true)) }
    }

    fn take_mode(&self) -> (i64, i64) {
        if !self.alive.load(Ordering::SeqCst) || self.ctl.fail_all.load(Ordering::SeqCst) {
            return (0, -1);
        }
        (self.ctl.fail_after.swap(-1, Ordering::SeqCst), self.ctl.park_after.swap(-1, Ordering::SeqCst))
    }

    async fn slow(&self) {
        let ms = self.ctl.slow_ms.load(Ordering::SeqCst);
        if ms > 0 {
            tokio::time::sleep(std::time::Duration::from_millis(ms as u64)).await;
        }
    }

    /// Which `n` of the items of a bulk call that fails part-way were written: not always the first n
    /// in request order - a store may work in key order, from the back, or skip around. Rotates with
    /// the call counter: leading items / the n smallest ids / the trailing items / every other item.
    fn partial_subset(&self, n: usize, ids: &[Key]) -> Vec<usize> {
        let len = ids.len();
        let n = n.min(len);
        match self.ctl.calls.load(Ordering::SeqCst) % 4 {
            0 => (0..n).collect(),
            1 => {
                let mut idx: Vec<usize> = (0..len).collect();
                idx.sort_by_key(|i| ids[*i]);
                let mut v: Vec<usize> = idx.into_iter().take(n).collect();
                v.sort();
                v
            },
            2 => (len - n..len).collect(),
            _ => {
                let mut v: Vec<usize> = (0..len).step_by(2).chain((1..len).step_by(2)).take(n).collect();
                v.sort();
                v
            },
        }
    }

    fn record(&self, keyspace: &str, id: Key, ts: HLCTimestamp, data: Option<Vec<u8>>) {
        self.ctl.log.lock().push(Write { node: self.ctl.node, keyspace: keyspace.to_string(), id, ts, data });
    }
}

#[async_trait::async_trait]
impl<I: Backing> Storage for HStore<I> {
    type Error = I::Error;
    type DocsIter = I::DocsIter;
    type MetadataIter = I::MetadataIter;

    async fn get_keyspace_list(&self) -> Result<Vec<String>, Self::Error> {
        self.inner.get_keyspace_list().await
    }

    async fn iter_metadata(&self, k: &str) -> Result<Self::MetadataIter, Self::Error> {
        let ms = self.ctl.slow_read_ms.load(Ordering::SeqCst);
        if ms > 0 {
            tokio::time::sleep(std::time::Duration::from_millis(ms as u64)).await;
        }
        self.inner.iter_metadata(k).await
    }

    async fn remove_tombstones(&self, k: &str, keys: impl Iterator<Item = Key> + Send) -> Result<(), BulkMutationError<Self::Error>> {
        let keys: Vec<_> = keys.collect();
        self.ctl.calls.fetch_add(1, Ordering::SeqCst);
        self.slow().await;
        let (f, p) = self.take_mode();
        if f >= 0 || p >= 0 {
            let n = (f.max(p) as usize).min(keys.len());
            let done: Vec<Key> = self.partial_subset(n, &keys).into_iter().map(|i| keys[i]).collect();
            self.inner.remove_tombstones(k, done.iter().copied()).await?;
            if p >= 0 {
                std::future::pending::<()>().await;
            }
            return Err(BulkMutationError::new(I::injected_error(), done));
        }
        self.inner.remove_tombstones(k, keys.into_iter()).await
    }

    async fn put_with_ctx(&self, k: &str, d: Document, _c: Option<&PutContext>) -> Result<(), Self::Error> {
        self.put(k, d).await
    }

    async fn put(&self, k: &str, d: Document) -> Result<(), Self::Error> {
        self.ctl.calls.fetch_add(1, Ordering::SeqCst);
        self.slow().await;
        let (f, p) = self.take_mode();
        if f >= 0 {
            return Err(I::injected_error());
        }
        self.record(k, d.id(), d.last_updated(), Some(d.data().to_vec()));
        let r = self.inner.put(k, d).await;
        if p >= 0 {
            std::future::pending::<()>().await;
        }
        r
    }

    async fn multi_put_with_ctx(&self, k: &str, docs: impl Iterator<Item = Document> + Send, _c: Option<&PutContext>) -> Result<(), BulkMutationError<Self::Error>> {
        self.multi_put(k, docs).await
    }

    async fn multi_put(&self, k: &str, docs: impl Iterator<Item = Document> + Send) -> Result<(), BulkMutationError<Self::Error>> {
        let docs: Vec<_> = docs.collect();
        self.ctl.calls.fetch_add(1, Ordering::SeqCst);
        self.slow().await;
        let (f, p) = self.take_mode();
        if f >= 0 || p >= 0 {
            let n = (f.max(p) as usize).min(docs.len());
            let ids: Vec<Key> = docs.iter().map(|d| d.id()).collect();
            let done: Vec<Document> = self.partial_subset(n, &ids).into_iter().map(|i| docs[i].clone()).collect();
            for d in &done {
                self.record(k, d.id(), d.last_updated(), Some(d.data().to_vec()));
            }
            self.inner.multi_put(k, done.iter().cloned()).await?;
            if p >= 0 {
                std::future::pending::<()>().await;
            }
            return Err(BulkMutationError::new(I::injected_error(), done.iter().map(|d| d.id()).collect()));
        }
        for d in &docs {
            self.record(k, d.id(), d.last_updated(), Some(d.data().to_vec()));
        }
        self.inner.multi_put(k, docs.into_iter()).await
    }

    async fn mark_as_tombstone(&self, k: &str, id: Key, ts: HLCTimestamp) -> Result<(), Self::Error> {
        self.ctl.calls.fetch_add(1, Ordering::SeqCst);
        self.slow().await;
        let (f, p) = self.take_mode();
        if f >= 0 {
            return Err(I::injected_error());
        }
        self.record(k, id, ts, None);
        let r = self.inner.mark_as_tombstone(k, id, ts).await;
        if p >= 0 {
            std::future::pending::<()>().await;
        }
        r
    }

    async fn mark_many_as_tombstone(&self, k: &str, docs: impl Iterator<Item = DocumentMetadata> + Send) -> Result<(), BulkMutationError<Self::Error>> {
        let docs: Vec<_> = docs.collect();
        self.ctl.calls.fetch_add(1, Ordering::SeqCst);
        self.slow().await;
        let (f, p) = self.take_mode();
        if f >= 0 || p >= 0 {
            let n = (f.max(p) as usize).min(docs.len());
            let ids: Vec<Key> = docs.iter().map(|d| d.id).collect();
            let done: Vec<DocumentMetadata> = self.partial_subset(n, &ids).into_iter().map(|i| docs[i]).collect();
            for d in &done {
                self.record(k, d.id, d.last_updated, None);
            }
            self.inner.mark_many_as_tombstone(k, done.iter().copied()).await?;
            if p >= 0 {
                std::future::pending::<()>().await;
            }
            return Err(BulkMutationError::new(I::injected_error(), done.iter().map(|d| d.id).collect()));
        }
        for d in &docs {
            self.record(k, d.id, d.last_updated, None);
        }
        self.inner.mark_many_as_tombstone(k, docs.into_iter()).await
    }

    async fn get(&self, k: &str, id: Key) -> Result<Option<Document>, Self::Error> {
        self.inner.get(k, id).await
    }

    async fn multi_get(&self, k: &str, ids: impl Iterator<Item = Key> + Send) -> Result<Self::DocsIter, Self::Error> {
        self.inner.multi_get(k, ids).await
    }
}
