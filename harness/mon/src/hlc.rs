//! Engine E0 (pure): hybrid logical clock monitors. C09 (send/recv under
//! arbitrary wall clocks, through hook H1) and C10 (encodings, ordering,
//! parsing never panics).
use std::cell::Cell;
use std::rc::Rc;
use std::str::FromStr;
use std::time::Duration;

use datacake_crdt::{HLCTimestamp, TimestampError, TIMESTAMP_MAX};
use rand::prelude::*;
use serde_json::{json, Value};

use crate::common::*;
use crate::crdt::ts_json;

const DRIFT_MS: u64 = 4_100_000;

fn grid(ms: u64) -> u64 {
    ms - ms % 4
}

#[derive(Clone, Copy, Debug)]
enum Call {
    Send { wall: u64 },
    Recv { wall: u64, msg_ms: u64, msg_c: u16, msg_node: u8 },
}

fn call_json(c: &Call) -> Value {
    match c {
        Call::Send { wall } => json!({"send": {"wall_ms": wall}}),
        Call::Recv { wall, msg_ms, msg_c, msg_node } => json!({"recv": {"wall_ms": wall, "msg_ms": msg_ms, "msg_counter": msg_c, "msg_node": msg_node}}),
    }
}

fn call_from_json(v: &Value) -> Call {
    if let Some(s) = v.get("send") {
        Call::Send { wall: s["wall_ms"].as_u64().unwrap() }
    } else {
        let r = &v["recv"];
        Call::Recv {
            wall: r["wall_ms"].as_u64().unwrap(),
            msg_ms: r["msg_ms"].as_u64().unwrap(),
            msg_c: r["msg_counter"].as_u64().unwrap() as u16,
            msg_node: r["msg_node"].as_u64().unwrap() as u8,
        }
    }
}

#[derive(Clone, Copy, PartialEq, Eq, Debug)]
enum Expect {
    Ok,
    Drift,
    Overflow,
    SameNode,
}

/// Independent statement of when a request cannot be satisfied.
fn expect(old_ms: u64, old_c: u16, node: u8, call: &Call) -> Expect {
    match *call {
        Call::Send { wall } => {
            let wall = grid(wall);
            let new = old_ms.max(wall);
            if new - wall > DRIFT_MS {
                Expect::Drift
            } else if new == old_ms && old_c == u16::MAX {
                Expect::Overflow
            } else {
                Expect::Ok
            }
        },
        Call::Recv { wall, msg_ms, msg_c, msg_node } => {
            let wall = grid(wall);
            if msg_node == node {
                return Expect::SameNode;
            }
            if msg_ms.saturating_sub(wall) > DRIFT_MS {
                return Expect::Drift;
            }
            let new = old_ms.max(wall).max(msg_ms);
            if new - wall > DRIFT_MS {
                return Expect::Drift;
            }
            let c = if new == old_ms && new == msg_ms {
                old_c.max(msg_c)
            } else if new == old_ms {
                old_c
            } else if new == msg_ms {
                msg_c
            } else {
                return Expect::Ok;
            };
            if c == u16::MAX {
                Expect::Overflow
            } else {
                Expect::Ok
            }
        },
    }
}

struct ClockMonitor {
    clock: HLCTimestamp,
    node: u8,
    /// greatest stamp issued or accepted so far
    high: Option<HLCTimestamp>,
    /// remote stamps accepted so far
    accepted_max: Option<HLCTimestamp>,
}

fn classify(e: &TimestampError) -> Expect {
    match e {
        TimestampError::ClockDrift => Expect::Drift,
        TimestampError::Overflow => Expect::Overflow,
        TimestampError::DuplicatedNode(_) => Expect::SameNode,
    }
}

impl ClockMonitor {
    /// Executes one call on the real clock (wall already installed) and
    /// returns the violated clause, if any.
    fn step(&mut self, call: &Call, wall: &Cell<u64>, out: &mut CaseOut) -> Option<(&'static str, Value)> {
        let raw_before = self.clock.as_u64();
        let old_ms = self.clock.datacake_timestamp().as_millis() as u64;
        let old_c = self.clock.counter();
        let exp = expect(old_ms, old_c, self.node, call);
        match *call {
            Call::Send { wall: w } => {
                wall.set(w);
                match self.clock.send() {
                    Ok(t) => {
                        out.count("sends_ok", 1);
                        if t.as_u64() != self.clock.as_u64() {
                            return Some(("send-result-differs-from-clock", json!({"result": ts_json(t), "clock": ts_json(self.clock)})));
                        }
                        if t.node() != self.node {
                            return Some(("send-lost-node-id", json!({"result": ts_json(t)})));
                        }
                        if let Some(h) = self.high {
                            if t <= h {
                                return Some(("send-not-greater-than-earlier-stamp", json!({"result": ts_json(t), "earlier": ts_json(h)})));
                            }
                        }
                        let ahead = (t.datacake_timestamp().as_millis() as u64).saturating_sub(grid(w));
                        if ahead > DRIFT_MS {
                            return Some(("send-beyond-permitted-drift", json!({"result": ts_json(t), "wall_ms": w, "ahead_ms": ahead})));
                        }
                        if exp != Expect::Ok {
                            return Some(("send-succeeded-but-cannot-be-satisfied", json!({"expected": format!("{exp:?}"), "result": ts_json(t)})));
                        }
                        self.high = Some(t);
                    },
                    Err(e) => {
                        out.count("sends_refused", 1);
                        if self.clock.as_u64() != raw_before {
                            return Some(("failed-send-changed-clock", json!({"before": raw_before, "after": self.clock.as_u64(), "error": e.to_string()})));
                        }
                        if classify(&e) != exp {
                            return Some(("send-error-not-warranted", json!({"error": e.to_string(), "expected": format!("{exp:?}")})));
                        }
                    },
                }
            },
            Call::Recv { wall: w, msg_ms, msg_c, msg_node } => {
                wall.set(w);
                let msg = HLCTimestamp::new(Duration::from_millis(msg_ms), msg_c, msg_node);
                match self.clock.recv(&msg) {
                    Ok(_) => {
                        out.count("recvs_accepted", 1);
                        if self.clock.node() != self.node {
                            return Some(("recv-changed-node-id", json!({"clock": ts_json(self.clock)})));
                        }
                        if self.clock <= msg {
                            return Some(("clock-not-greater-than-accepted-remote", json!({"clock": ts_json(self.clock), "remote": ts_json(msg)})));
                        }
                        if let Some(h) = self.high {
                            if self.clock <= h {
                                return Some(("recv-moved-clock-backwards", json!({"clock": ts_json(self.clock), "earlier": ts_json(h)})));
                            }
                        }
                        if exp != Expect::Ok {
                            return Some(("recv-succeeded-but-cannot-be-satisfied", json!({"expected": format!("{exp:?}"), "clock": ts_json(self.clock)})));
                        }
                        self.high = Some(self.clock.max(msg));
                        self.accepted_max = Some(self.accepted_max.map_or(msg, |m| m.max(msg)));
                    },
                    Err(e) => {
                        out.count("recvs_refused", 1);
                        if self.clock.as_u64() != raw_before {
                            return Some(("failed-recv-changed-clock", json!({"before": raw_before, "after": self.clock.as_u64(), "error": e.to_string()})));
                        }
                        if classify(&e) != exp {
                            return Some(("recv-error-not-warranted", json!({"error": e.to_string(), "expected": format!("{exp:?}")})));
                        }
                    },
                }
            },
        }
        None
    }
}

fn install_wall(wall: Rc<Cell<u64>>) {
    datacake_crdt::verif::set_wall(Some(Box::new(move |_node| Some(Duration::from_millis(wall.get())))));
}

fn run_calls(node: u8, start_ms: u64, start_c: u16, calls: &[Call], out: &mut CaseOut) -> Option<(usize, &'static str, Value)> {
    let wall = Rc::new(Cell::new(0u64));
    install_wall(wall.clone());
    let mut m = ClockMonitor {
        clock: HLCTimestamp::new(Duration::from_millis(start_ms), start_c, node),
        node,
        high: None,
        accepted_max: None,
    };
    m.high = Some(m.clock);
    let mut res = None;
    for (i, c) in calls.iter().enumerate() {
        if let Some((what, d)) = m.step(c, &wall, out) {
            res = Some((i, what, d));
            break;
        }
    }
    datacake_crdt::verif::set_wall(None);
    res
}

fn relation_class(old_ms: u64, call: &Call) -> u64 {
    // (old vs wall, msg vs wall, msg vs old) relation classes hit
    let rel = |a: u64, b: u64| -> u64 {
        if a + DRIFT_MS < b {
            0
        } else if a < b {
            1
        } else if a == b {
            2
        } else if a <= b + DRIFT_MS {
            3
        } else {
            4
        }
    };
    match *call {
        Call::Send { wall } => rel(old_ms, grid(wall)),
        Call::Recv { wall, msg_ms, msg_c, .. } => {
            100 + rel(old_ms, grid(wall)) * 25 + rel(msg_ms, grid(wall)) * 5 + rel(msg_ms, old_ms) + if msg_c == u16::MAX { 1000 } else { 0 }
        },
    }
}

fn c09_random_case(seed: u64, i: u64) -> CaseOut {
    let mut rng = rng_for(seed, 0xC09, i);
    let node = rng.gen_range(0..4u8);
    let mut wall = 500_000_000u64 + rng.gen_range(0..1_000_000);
    let start_ms = grid(wall - rng.gen_range(0..10_000));
    let start_c = if rng.gen_bool(0.2) { rng.gen_range(65_400..=65_535) } else { rng.gen_range(0..10) };
    let n = rng.gen_range(20..400);
    let mut calls = Vec::with_capacity(n);
    let mut mode = 0;
    let mut shadow_ms = start_ms; // rough idea of the clock for picking interesting remotes
    for _ in 0..n {
        if rng.gen_bool(0.05) {
            mode = rng.gen_range(0..6);
        }
        match mode {
            0 => wall += rng.gen_range(0..40),                        // advancing
            1 => {},                                                    // stalled
            2 => wall = wall.saturating_sub(rng.gen_range(0..5_000)),  // creeping backwards
            3 => {
                wall = wall.saturating_sub(rng.gen_range(0..8_000_000)); // big jump back (up to > drift)
                mode = 1;
            },
            4 => {
                wall += rng.gen_range(0..9_000_000); // big jump forward
                mode = 0;
            },
            _ => wall += rng.gen_range(0..3),
        }
        shadow_ms = shadow_ms.max(grid(wall));
        if rng.gen_bool(0.6) {
            calls.push(Call::Send { wall });
        } else {
            let msg_node = if rng.gen_bool(0.05) { node } else { (node + rng.gen_range(1..4)) % 4 };
            let msg_ms = match rng.gen_range(0..8) {
                0 => shadow_ms,
                1 => grid(wall),
                2 => shadow_ms + 4,
                3 => grid(wall) + DRIFT_MS,
                4 => grid(wall) + DRIFT_MS + 4,
                5 => grid(wall).saturating_sub(rng.gen_range(0..10_000_000)),
                6 => grid(wall) + grid(rng.gen_range(0..DRIFT_MS)),
                _ => shadow_ms.saturating_sub(4),
            };
            let msg_c = match rng.gen_range(0..6) {
                0 => 65_535,
                1 => 65_534,
                2 => 0,
                _ => rng.gen_range(0..100),
            };
            if msg_ms > shadow_ms && msg_ms.saturating_sub(grid(wall)) <= DRIFT_MS {
                shadow_ms = msg_ms;
            }
            calls.push(Call::Recv { wall, msg_ms: grid(msg_ms), msg_c, msg_node });
        }
    }
    let mut out = CaseOut::default();
    let res = run_calls(node, start_ms, start_c, &calls, &mut out);
    let mut classes = std::collections::BTreeSet::new();
    for c in &calls {
        classes.insert(relation_class(start_ms, c));
    }
    out.nontrivial = Some(hash_of(&(node, start_ms, start_c, format!("{calls:?}"))));
    out.count("calls", calls.len() as u64);
    if let Some((idx, what, d)) = res {
        out.violate(
            format!("C09:{what}"),
            json!({"node": node, "start_ms": start_ms, "start_counter": start_c, "failing_call_index": idx, "failing_call": call_json(&calls[idx]), "at": d}),
        );
        out.replay = Some(json!({"node": node, "start_ms": start_ms, "start_counter": start_c, "calls": calls[..=idx].iter().map(call_json).collect::<Vec<_>>()}));
    }
    if i == 1 {
        out.sample = Some(json!({"node": node, "start_ms": start_ms, "start_counter": start_c, "first_calls": calls.iter().take(12).map(call_json).collect::<Vec<_>>()}));
    }
    out
}

/// Boundary grid: (old, wall, msg) in {-1,0,+1 tick, +-drift, +-drift+-1 tick}^3
/// x counters {0, 65534, 65535}^2, for send and recv, followed by one more send.
fn c09_boundary(report: &mut Report, args: &Args) {
    let base = 900_000_000u64;
    let offs: Vec<i64> = vec![
        -(DRIFT_MS as i64) - 4,
        -(DRIFT_MS as i64),
        -(DRIFT_MS as i64) + 4,
        -4,
        0,
        4,
        DRIFT_MS as i64 - 4,
        DRIFT_MS as i64,
        DRIFT_MS as i64 + 4,
    ];
    let counters = [0u16, 65_534, 65_535];
    let mut cases = Vec::new();
    for &o in &offs {
        for &w in &offs {
            for &m in &offs {
                for &c0 in &counters {
                    for &c1 in &counters {
                        cases.push((o, w, m, c0, c1));
                    }
                }
            }
        }
    }
    let n = cases.len() as u64;
    let classes = parking_lot::Mutex::new(std::collections::BTreeSet::new());
    run_cases(report, n, args.threads, Duration::from_secs(120), |i| {
        let (o, w, m, c0, c1) = cases[i as usize];
        let old = (base as i64 + o) as u64;
        let wall = (base as i64 + w) as u64;
        let msg = (base as i64 + m) as u64;
        let mut out = CaseOut::default();
        for variant in 0..3 {
            let calls: Vec<Call> = match variant {
                0 => vec![Call::Send { wall }, Call::Send { wall }],
                1 => vec![Call::Recv { wall, msg_ms: msg, msg_c: c1, msg_node: 2 }, Call::Send { wall }],
                _ => vec![Call::Recv { wall, msg_ms: msg, msg_c: c1, msg_node: 1 }, Call::Send { wall: wall + 4 }],
            };
            for c in &calls {
                classes.lock().insert(relation_class(old, c));
            }
            let node = if variant == 2 { 1 } else { 0 };
            if let Some((idx, what, d)) = run_calls(node, old, c0, &calls, &mut out) {
                out.violate(
                    format!("C09:{what}"),
                    json!({"boundary": {"old_off": o, "wall_off": w, "msg_off": m, "c_old": c0, "c_msg": c1}, "failing_call": call_json(&calls[idx]), "at": d}),
                );
                out.replay = Some(json!({"node": node, "start_ms": old, "start_counter": c0, "calls": calls.iter().map(call_json).collect::<Vec<_>>()}));
            }
        }
        out.count("boundary_combinations", 1);
        out.nontrivial = Some(hash_of(&(o, w, m, c0, c1)));
        out
    });
    report.extra.insert("relation_classes_hit_boundary".into(), json!(classes.lock().len()));
}

pub fn c09(args: &Args) {
    let mut report = Report::new(
        args,
        "E0-hlc",
        "real HLCTimestamp::send/recv with the wall clock injected through hook H1. Shadow monitor after every call: successful send > everything issued or accepted before, keeps the node id, is <= MAX_CLOCK_DRIFT ahead of the injected wall; successful recv leaves the clock > the remote stamp and > everything before; every Err leaves the packed clock value unchanged and is the error the inputs warrant (independent restatement of 'cannot be satisfied'). Workloads: boundary grid 9^3 offsets x 3^2 counters x 3 call shapes (exhaustive), then random sequences of 20..400 calls under advancing / stalled / creeping-back / jumping wall clocks with remotes near, equal, far ahead, same node and counters 0/65534/65535. distinct_nontrivial = distinct call sequences (all contain several calls).",
    );
    if let Some(path) = &args.replay {
        let r = read_replay(path);
        let calls: Vec<Call> = r["calls"].as_array().unwrap().iter().map(call_from_json).collect();
        let mut out = CaseOut::default();
        if let Some((idx, what, d)) = run_calls(r["node"].as_u64().unwrap() as u8, r["start_ms"].as_u64().unwrap(), r["start_counter"].as_u64().unwrap() as u16, &calls, &mut out) {
            out.violate(format!("C09:{what}"), json!({"failing_call_index": idx, "at": d}));
        }
        report.absorb(out);
        report.finish(args);
        return;
    }
    c09_boundary(&mut report, args);
    let seed = args.seed;
    let n = args.pick(600_000, 10_000_000);
    run_cases(&mut report, n, args.threads, Duration::from_secs(args.pick(60, 1200)), |i| c09_random_case(seed, i));
    report.floor("sends_ok", 1000);
    report.floor("recvs_accepted", 1000);
    report.floor("sends_refused", 100);
    report.floor("recvs_refused", 100);
    report.finish(args);
}

// ---------------------------------------------------------------------------
// C10
// ---------------------------------------------------------------------------

fn tuple_of(t: HLCTimestamp) -> (u64, u8, u16, u8) {
    (t.seconds(), t.fractional(), t.counter(), t.node())
}

fn c10_roundtrip(secs: u64, frac: u8, counter: u16, node: u8) -> Option<(&'static str, Value)> {
    let dur = Duration::from_secs(secs) + Duration::from_millis(frac as u64 * 4);
    let t = HLCTimestamp::new(dur, counter, node);
    let ctx = || json!({"seconds": secs, "fractional": frac, "counter": counter, "node": node});
    if tuple_of(t) != (secs, frac, counter, node) {
        return Some(("accessors-disagree-with-fields", json!({"in": ctx(), "out": format!("{:?}", tuple_of(t))})));
    }
    if t.datacake_timestamp() != dur {
        return Some(("datacake-timestamp-differs", ctx()));
    }
    if HLCTimestamp::from_u64(t.as_u64()) != t {
        return Some(("u64-roundtrip", ctx()));
    }
    let text = t.to_string();
    match std::panic::catch_unwind(|| HLCTimestamp::from_str(&text)) {
        Ok(Ok(back)) if back == t => {},
        Ok(other) => return Some(("text-roundtrip", json!({"in": ctx(), "text": text, "parsed": format!("{other:?}")}))),
        Err(_) => return Some(("parse-panicked-on-own-output", json!({"in": ctx(), "text": text}))),
    }
    let bytes = rkyv::to_bytes::<_, 64>(&t).expect("archive");
    let arch = unsafe { rkyv::archived_root::<HLCTimestamp>(&bytes) };
    if arch.cast() != t {
        return Some(("archived-roundtrip", ctx()));
    }
    let de: HLCTimestamp = rkyv::from_bytes(&bytes).expect("validated deserialize");
    if de != t {
        return Some(("archived-deserialize-roundtrip", ctx()));
    }
    None
}

fn c10_order(a: (u64, u8, u16, u8), b: (u64, u8, u16, u8)) -> Option<(&'static str, Value)> {
    let mk = |x: (u64, u8, u16, u8)| HLCTimestamp::new(Duration::from_secs(x.0) + Duration::from_millis(x.1 as u64 * 4), x.2, x.3);
    let (ta, tb) = (mk(a), mk(b));
    let want = ((a.0, a.1), a.2, a.3).cmp(&((b.0, b.1), b.2, b.3));
    if ta.cmp(&tb) != want || ta.partial_cmp(&tb) != Some(want) || (ta == tb) != (want == std::cmp::Ordering::Equal) {
        return Some(("ordering-disagrees-with-tuple-order", json!({"a": format!("{a:?}"), "b": format!("{b:?}"), "got": format!("{:?}", ta.cmp(&tb)), "want": format!("{want:?}")})));
    }
    None
}

fn c10_gen_string(rng: &mut StdRng) -> String {
    let num = |rng: &mut StdRng| -> String {
        match rng.gen_range(0..14) {
            0 => "0".into(),
            1 => rng.gen_range(0..300u32).to_string(),
            2 => TIMESTAMP_MAX.to_string(),
            3 => (TIMESTAMP_MAX + 1).to_string(),
            4 => u64::MAX.to_string(),
            5 => "18446744073709551616".into(),
            6 => format!("{:X}", rng.gen::<u16>()),
            7 => format!("{:x}", rng.gen::<u32>()),
            8 => format!("-{}", rng.gen_range(0..100)),
            9 => format!("+{}", rng.gen_range(0..100)),
            10 => "".into(),
            11 => format!("{:0>4}", rng.gen_range(0..260u32)),
            12 => ["é", " 1", "1 ", "0x10", "١٢", "1e3", "NaN", "\u{0}"].choose(rng).unwrap().to_string(),
            _ => rng.gen::<u64>().to_string(),
        }
    };
    let parts = match rng.gen_range(0..10) {
        0 => rng.gen_range(0..3),
        1 => rng.gen_range(5..7),
        _ => 4,
    };
    let sep = if rng.gen_bool(0.05) { [":", "_", "--", " "].choose(rng).unwrap().to_string() } else { "-".to_string() };
    let mut s = (0..parts).map(|_| num(rng)).collect::<Vec<_>>().join(&sep);
    if rng.gen_bool(0.1) {
        // a valid stamp with one field pushed out of range
        let secs: u64 = *[0, 1, TIMESTAMP_MAX - 1, TIMESTAMP_MAX, TIMESTAMP_MAX + 1, 1u64 << 33, 1u64 << 34, u64::MAX].choose(rng).unwrap();
        let frac: u32 = *[0u32, 1, 249, 250, 255, 256].choose(rng).unwrap();
        let cnt: u32 = *[0u32, 0xFFFF, 0x10000].choose(rng).unwrap();
        let node: u32 = *[0u32, 255, 256].choose(rng).unwrap();
        s = format!("{secs}-{frac:0>4}-{cnt:0>4X}-{node:0>4}");
    }
    if rng.gen_bool(0.08) {
        // a multi-byte character anywhere (also in place of one or two characters)
        let mut v: Vec<String> = s.chars().map(|c| c.to_string()).collect();
        let pos = rng.gen_range(0..=v.len());
        let ch = ["é", "€", "😀", "ß", "١"].choose(rng).unwrap().to_string();
        if pos < v.len() && rng.gen_bool(0.5) {
            v[pos] = ch;
            if pos + 1 < v.len() && rng.gen_bool(0.5) {
                v.remove(pos + 1);
            }
        } else {
            v.insert(pos, ch);
        }
        s = v.concat();
    }
    s
}

/// Runs one oracle evaluation; a panic inside the library on a valid triple is a violation of its own.
fn c10_guard<F: FnOnce() -> Option<(&'static str, Value)> + std::panic::UnwindSafe>(what: &'static str, input: Value, f: F) -> Option<(String, Value)> {
    match std::panic::catch_unwind(f) {
        Ok(r) => r.map(|(w, d)| (w.to_string(), d)),
        Err(_) => Some((format!("{what}-panicked-on-a-valid-timestamp"), input)),
    }
}

pub fn c10(args: &Args) {
    let mut report = Report::new(
        args,
        "E0-hlc",
        "grid: seconds in {0,1,2^31-1,2^31,2^31+1,2^32-2,2^32-1}+random x fractional 0..=249 x counter {0,1,255,256,65534,65535}+random x node {0,1,127,128,254,255}+random: new -> accessors, as_u64/from_u64, Display -> FromStr, rkyv archive -> cast and validated deserialize are identities; cmp of pairs equals tuple comparison (time@4ms, counter, node). from_str on generated strings (valid, each field out of range, wrong separators, signs, hex case, huge numbers, unicode, empty) inside catch_unwind: Ok or Err, never a panic. Non-trivial: every grid point / distinct string counts once.",
    );
    // (witnesses of the grid / ordering part carry no parameters: the grid is deterministic and fast, a
    // replay of such a witness simply runs the whole monitor again)
    if let Some(path) = args.replay.as_ref().filter(|p| read_replay(p)["text"].is_string()) {
        let r = read_replay(path);
        let s = r["text"].as_str().unwrap().to_string();
        let mut out = CaseOut::default();
        let res = std::panic::catch_unwind(|| HLCTimestamp::from_str(&s).is_ok());
        if res.is_err() {
            out.violate("C10:from_str-panicked", json!({"text": s}));
        }
        report.absorb(out);
        report.finish(args);
        return;
    }
    std::panic::set_hook(Box::new(|_| {}));
    let secs_grid: Vec<u64> = vec![0, 1, (1 << 31) - 1, 1 << 31, (1 << 31) + 1, TIMESTAMP_MAX - 1, TIMESTAMP_MAX];
    let counters: Vec<u16> = vec![0, 1, 255, 256, 65_534, 65_535];
    let nodes: Vec<u8> = vec![0, 1, 127, 128, 254, 255];
    let mut rng = rng_for(args.seed, 0xC10, 0);
    let mut secs_all = secs_grid.clone();
    for _ in 0..args.pick(6, 60) {
        secs_all.push(rng.gen_range(0..=TIMESTAMP_MAX));
    }
    let mut grid_points = 0u64;
    let mut out = CaseOut::default();
    for &s in &secs_all {
        for f in 0..=249u8 {
            for &c in &counters {
                for &n in &nodes {
                    grid_points += 1;
                    report.distinct.insert(hash_of(&(s, f, c, n)));
                    if let Some((what, d)) = c10_guard("roundtrip", json!({"seconds": s, "fractional": f, "counter": c, "node": n}), move || c10_roundtrip(s, f, c, n)) {
                        out.violate(format!("C10:{what}"), d);
                    }
                }
            }
        }
    }
    report.count("grid_points_roundtripped", grid_points);
    // ordering on neighbouring grid points + random pairs
    let mut pairs = 0u64;
    let mut pts: Vec<(u64, u8, u16, u8)> = Vec::new();
    for &s in &secs_grid {
        for f in [0u8, 1, 124, 248, 249] {
            for &c in &[0u16, 1, 65_535] {
                for &n in &[0u8, 1, 255] {
                    pts.push((s, f, c, n));
                }
            }
        }
    }
    for a in &pts {
        for b in &pts {
            pairs += 1;
            let (a2, b2) = (*a, *b);
            if let Some((what, d)) = c10_guard("comparison", json!({"a": [a2.0, a2.1, a2.2, a2.3], "b": [b2.0, b2.1, b2.2, b2.3]}), move || c10_order(a2, b2)) {
                out.violate(format!("C10:{what}"), d);
            }
        }
    }
    for _ in 0..args.pick(200_000, 5_000_000) {
        let mut p = || (rng.gen_range(0..=TIMESTAMP_MAX), rng.gen_range(0..=249u8), rng.gen::<u16>(), rng.gen::<u8>());
        let a = p();
        let mut b = p();
        // make ties on leading fields likely
        let k = rng.gen_range(0..5);
        if k >= 1 {
            b.0 = a.0;
        }
        if k >= 2 {
            b.1 = a.1;
        }
        if k >= 3 {
            b.2 = a.2;
        }
        pairs += 1;
        if let Some((what, d)) = c10_guard("comparison", json!({"a": [a.0, a.1, a.2, a.3], "b": [b.0, b.1, b.2, b.3]}), move || c10_order(a, b)) {
            out.violate(format!("C10:{what}"), d);
        }
        if let Some((what, d)) = c10_guard("roundtrip", json!({"seconds": a.0, "fractional": a.1, "counter": a.2, "node": a.3}), move || c10_roundtrip(a.0, a.1, a.2, a.3)) {
            out.violate(format!("C10:{what}"), d);
        }
    }
    report.count("ordered_pairs_compared", pairs);
    report.absorb(out);
    report.evaluations = grid_points + pairs;
    // parsing never panics, part one: every character-level mutant of valid text forms (each position x
    // replace / insert / delete x a list of single- and multi-byte characters), so that a parser working on
    // byte offsets meets a character boundary problem at every offset there is
    {
        let mut out = CaseOut::default();
        let mut mutants = 0u64;
        let mut multibyte = 0u64;
        let mut bases: Vec<String> = Vec::new();
        for secs in [0u64, 7, 42, 999, 12_345, 1_000_000, 999_999_999, 1_700_000_000, TIMESTAMP_MAX] {
            for (f, c, n) in [(0u8, 0u16, 0u8), (249, 65_535, 255), (17, 0x0A0B, 9)] {
                if let Ok(t) = std::panic::catch_unwind(move || HLCTimestamp::new(Duration::from_secs(secs) + Duration::from_millis(f as u64 * 4), c, n).to_string()) {
                    bases.push(t);
                }
            }
        }
        bases.push("1-2-3-4".into());
        bases.push("0-0-0-0".into());
        bases.push("".into());
        let repl = ["é", "€", "😀", "١", "\u{0}", " ", "-", "Z", "9", "\u{7f}", "ß"];
        for base in &bases {
            let chars: Vec<char> = base.chars().collect();
            for pos in 0..=chars.len() {
                for r in repl {
                    for op in 0..3 {
                        let mut v: Vec<String> = chars.iter().map(|c| c.to_string()).collect();
                        match op {
                            0 if pos < chars.len() => v[pos] = r.to_string(),
                            1 => v.insert(pos, r.to_string()),
                            2 if pos < chars.len() => {
                                // a two-character window replaced by one multi-byte character
                                v[pos] = r.to_string();
                                if pos + 1 < chars.len() {
                                    v.remove(pos + 1);
                                }
                            },
                            _ => continue,
                        }
                        let s: String = v.concat();
                        mutants += 1;
                        if r.len() > 1 {
                            multibyte += 1;
                        }
                        let s2 = s.clone();
                        match std::panic::catch_unwind(move || HLCTimestamp::from_str(&s2)) {
                            Ok(Ok(t)) => {
                                let again = t.to_string();
                                if HLCTimestamp::from_str(&again).ok() != Some(t) {
                                    out.violate("C10:parsed-stamp-does-not-roundtrip", json!({"text": s, "printed": again}));
                                }
                            },
                            Ok(Err(_)) => {},
                            Err(_) => {
                                let class = if s.is_ascii() { "ascii-mutant-of-valid-text" } else { "non-ascii-text" };
                                out.violate(format!("C10:from_str-panicked:{class}"), json!({"text": s}));
                                out.replay = Some(json!({"text": s}));
                            },
                        }
                    }
                }
            }
        }
        out.count("text_mutants_parsed", mutants);
        out.count("text_mutants_with_multibyte_character", multibyte);
        report.absorb(out);
        report.evaluations += mutants;
    }
    // parsing never panics, part two: generated strings
    let seed = args.seed;
    let n = args.pick(2_000_000, 40_000_000);
    let chunk = 20_000u64;
    run_cases(&mut report, n / chunk, args.threads, Duration::from_secs(args.pick(90, 900)), |ci| {
        let mut rng = rng_for(seed, 0xC10F, ci);
        let mut out = CaseOut::default();
        let mut seen = std::collections::BTreeSet::new();
        let (mut oks, mut errs) = (0u64, 0u64);
        for _ in 0..chunk {
            let s = c10_gen_string(&mut rng);
            let s2 = s.clone();
            match std::panic::catch_unwind(move || HLCTimestamp::from_str(&s2)) {
                Ok(Ok(t)) => {
                    oks += 1;
                    // a parsed stamp must print back to something that parses to itself
                    let again = t.to_string();
                    if HLCTimestamp::from_str(&again).ok() != Some(t) {
                        out.violate("C10:parsed-stamp-does-not-roundtrip", json!({"text": s, "printed": again}));
                    }
                },
                Ok(Err(_)) => errs += 1,
                Err(_) => {
                    let fields: Vec<&str> = s.splitn(4, '-').collect();
                    let secs_big = fields.first().and_then(|f| f.parse::<u64>().ok()).map(|v| v > TIMESTAMP_MAX).unwrap_or(false);
                    let class = if secs_big {
                        "seconds-beyond-32-bits"
                    } else if fields.first().and_then(|f| f.parse::<u64>().ok()) == Some(TIMESTAMP_MAX) {
                        "max-seconds-with-fractional-carry"
                    } else {
                        "other"
                    };
                    out.violate(format!("C10:from_str-panicked:{class}"), json!({"text": s}));
                    out.replay = Some(json!({"text": s}));
                },
            }
            seen.insert(hash_of(&s));
        }
        out.count("strings_parsed_ok", oks);
        out.count("strings_rejected", errs);
        out.count("distinct_strings", seen.len() as u64);
        out.nontrivial = Some(hash_of(&(ci, seen.len())));
        if ci == 0 {
            let mut rng = rng_for(seed, 0xC10F, ci);
            out.sample = Some(json!({"strings": (0..8).map(|_| c10_gen_string(&mut rng)).collect::<Vec<_>>()}));
        }
        out
    });
    let _ = std::panic::take_hook();
    report.evaluations += report.counts.get("strings_parsed_ok").copied().unwrap_or(0) + report.counts.get("strings_rejected").copied().unwrap_or(0);
    report.samples.push(json!({"grid_point": {"seconds": TIMESTAMP_MAX, "fractional": 249, "counter": 65_535, "node": 255}, "text": std::panic::catch_unwind(|| HLCTimestamp::new(Duration::from_secs(TIMESTAMP_MAX) + Duration::from_millis(996), 65_535, 255).to_string()).unwrap_or_else(|_| "(constructor panicked)".into())}));
    report.finish(args);
}
