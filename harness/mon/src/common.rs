//! Shared plumbing of the monitors: arguments, deterministic PRNG streams,
//! the per-run report (what was observed, violations with signatures and
//! replay files) and a small parallel case runner.
use std::collections::{BTreeMap, BTreeSet, HashMap};
use std::hash::{Hash, Hasher};
use std::path::PathBuf;
use std::sync::atomic::{AtomicBool, AtomicU64, Ordering};
use std::sync::Arc;
use std::time::{Duration, Instant};

use parking_lot::Mutex;
use rand::prelude::*;
use serde_json::{json, Map, Value};

#[derive(Clone, Copy, PartialEq, Eq, Debug)]
pub enum Tier {
    Quick,
    Thorough,
}

#[derive(Clone, Debug)]
pub struct Args {
    pub prop: String,
    pub tier: Tier,
    pub seed: u64,
    pub out: Option<PathBuf>,
    pub replay: Option<PathBuf>,
    pub threads: usize,
    pub opts: HashMap<String, String>,
}

impl Args {
    pub fn parse() -> Args {
        let mut it = std::env::args().skip(1);
        let prop = it.next().unwrap_or_else(|| usage());
        let mut a = Args {
            prop,
            tier: Tier::Quick,
            seed: std::env::var("VERIF_SEED").ok().and_then(|s| s.parse().ok()).unwrap_or(1),
            out: None,
            replay: None,
            threads: std::thread::available_parallelism().map(|n| n.get()).unwrap_or(4).min(16),
            opts: HashMap::new(),
        };
        while let Some(k) = it.next() {
            let mut val = || it.next().unwrap_or_else(|| usage());
            match k.as_str() {
                "--tier" => {
                    a.tier = match val().as_str() {
                        "quick" => Tier::Quick,
                        "thorough" => Tier::Thorough,
                        _ => usage(),
                    }
                },
                "--seed" => a.seed = val().parse().unwrap_or_else(|_| usage()),
                "--out" => a.out = Some(PathBuf::from(val())),
                "--replay" => a.replay = Some(PathBuf::from(val())),
                "--threads" => a.threads = val().parse().unwrap_or_else(|_| usage()),
                k if k.starts_with("--") => {
                    let v = val();
                    a.opts.insert(k[2..].to_string(), v);
                },
                _ => usage(),
            }
        }
        a
    }

    pub fn opt_u64(&self, key: &str, default: u64) -> u64 {
        self.opts.get(key).and_then(|v| v.parse().ok()).unwrap_or(default)
    }

    pub fn opt_str(&self, key: &str) -> Option<&str> {
        self.opts.get(key).map(|s| s.as_str())
    }

    pub fn pick(&self, quick: u64, thorough: u64) -> u64 {
        match self.tier {
            Tier::Quick => quick,
            Tier::Thorough => thorough,
        }
    }
}

fn usage() -> ! {
    eprintln!("usage: mon <property|engine> [--tier quick|thorough] [--seed N] [--out report.json] [--replay file] [--threads N] [--key value ...]");
    std::process::exit(2)
}

/// Independent PRNG stream for (seed, stream tag, case index).
pub fn rng_for(seed: u64, stream: u64, idx: u64) -> StdRng {
    let mut h = std::collections::hash_map::DefaultHasher::new();
    (seed, stream, idx).hash(&mut h);
    StdRng::seed_from_u64(h.finish() ^ seed.rotate_left(17) ^ idx.wrapping_mul(0x9E37_79B9_7F4A_7C15))
}

/// Scratch directory for databases and child-process files (removed by the caller at exit).
pub fn scratch_dir(tag: &str) -> PathBuf {
    let root = std::env::var("VERIF_SCRATCH").unwrap_or_else(|_| "/verif/harness/target/tmp".to_string());
    let p = PathBuf::from(root).join(format!("{tag}-{}", std::process::id()));
    let _ = std::fs::create_dir_all(&p);
    p
}

pub fn hash_of<T: Hash>(v: &T) -> u64 {
    let mut h = std::collections::hash_map::DefaultHasher::new();
    v.hash(&mut h);
    h.finish()
}

pub fn replay_dir() -> PathBuf {
    let d = std::env::var("VERIF_REPLAY_DIR").unwrap_or_else(|_| "/verif/replays".to_string());
    let p = PathBuf::from(d);
    let _ = std::fs::create_dir_all(&p);
    p
}

#[derive(Clone, Debug)]
pub struct Violation {
    pub signature: String,
    pub detail: Value,
}

/// What one executed case contributes to the report.
#[derive(Default)]
pub struct CaseOut {
    /// hash identifying the case among the non-trivial ones (None: trivial)
    pub nontrivial: Option<u64>,
    /// named event counters observed by the monitor in this case
    pub counts: Vec<(&'static str, u64)>,
    pub violations: Vec<Violation>,
    pub inconclusive: Option<String>,
    /// a written-out description of the case (kept for the first few)
    pub sample: Option<Value>,
    /// parameters which replay this case (`mon <prop> --replay file`)
    pub replay: Option<Value>,
}

impl CaseOut {
    pub fn count(&mut self, name: &'static str, n: u64) {
        self.counts.push((name, n));
    }
    pub fn violate(&mut self, signature: impl Into<String>, detail: Value) {
        self.violations.push(Violation { signature: signature.into(), detail });
    }
}

pub struct Report {
    pub prop: String,
    pub engine: String,
    pub tier: Tier,
    pub seed: u64,
    pub started: Instant,
    pub evaluations: u64,
    pub distinct: BTreeSet<u64>,
    /// distinct non-trivial cases counted by child processes (their sets are disjoint by construction)
    pub distinct_children: u64,
    pub rule: String,
    pub samples: Vec<Value>,
    pub counts: BTreeMap<String, u64>,
    pub extra: Map<String, Value>,
    /// signature -> (count, first few (detail, replay path))
    pub violations: BTreeMap<String, (u64, Vec<(Value, String)>)>,
    pub inconclusive: Vec<String>,
    pub inconclusive_count: u64,
    /// run-level reasons why no verdict can be taken (floors not met, hook never reached)
    pub run_inconclusive: Vec<String>,
    pub exhaustive: bool,
    pub max_samples: usize,
}

impl Report {
    pub fn new(args: &Args, engine: &str, rule: &str) -> Self {
        Report {
            prop: args.prop.clone(),
            engine: engine.to_string(),
            tier: args.tier,
            seed: args.seed,
            started: Instant::now(),
            evaluations: 0,
            distinct: BTreeSet::new(),
            distinct_children: 0,
            rule: rule.to_string(),
            samples: Vec::new(),
            counts: BTreeMap::new(),
            extra: Map::new(),
            violations: BTreeMap::new(),
            inconclusive: Vec::new(),
            inconclusive_count: 0,
            run_inconclusive: Vec::new(),
            exhaustive: false,
            max_samples: 3,
        }
    }

    pub fn count(&mut self, name: &str, n: u64) {
        *self.counts.entry(name.to_string()).or_insert(0) += n;
    }

    pub fn get(&self, name: &str) -> u64 {
        self.counts.get(name).copied().unwrap_or(0)
    }

    /// Fails closed to *inconclusive* when the monitor observed too little.
    pub fn floor(&mut self, name: &str, min: u64) {
        let got = self.get(name);
        if got < min {
            self.run_inconclusive.push(format!("too few events: {name}={got} < {min}"));
        }
    }

    pub fn add_violation(&mut self, v: Violation, replay: Option<Value>) {
        let prop = self.prop.clone();
        let seed = self.seed;
        let e = self.violations.entry(v.signature.clone()).or_insert((0, Vec::new()));
        e.0 += 1;
        if e.1.len() < 3 {
            let name = format!(
                "{}-{:016x}-s{}-{}.json",
                prop,
                hash_of(&v.signature),
                seed,
                e.1.len()
            );
            let path = replay_dir().join(name);
            let body = json!({
                "property": prop,
                "signature": v.signature,
                "seed": seed,
                "replay": replay.unwrap_or(Value::Null),
                "observed": v.detail,
            });
            let _ = std::fs::write(&path, serde_json::to_vec_pretty(&body).unwrap());
            e.1.push((v.detail, path.to_string_lossy().to_string()));
        }
    }

    pub fn absorb(&mut self, out: CaseOut) {
        self.evaluations += 1;
        if let Some(h) = out.nontrivial {
            self.distinct.insert(h);
        }
        for (k, n) in out.counts {
            *self.counts.entry(k.to_string()).or_insert(0) += n;
        }
        if let Some(why) = out.inconclusive {
            self.inconclusive_count += 1;
            if self.inconclusive.len() < 5 {
                self.inconclusive.push(why);
            }
        }
        if let Some(s) = out.sample {
            if self.samples.len() < self.max_samples {
                self.samples.push(s);
            }
        }
        let replay = out.replay;
        for v in out.violations {
            self.add_violation(v, replay.clone());
        }
    }

    /// Merges the report a child process wrote (same JSON shape as `to_json`).
    pub fn merge_child(&mut self, v: &Value) {
        self.evaluations += v["evaluations"].as_u64().unwrap_or(0);
        self.distinct_children += v["distinct_nontrivial"].as_u64().unwrap_or(0);
        if let Some(m) = v["observed"].as_object() {
            for (k, n) in m {
                *self.counts.entry(k.clone()).or_insert(0) += n.as_u64().unwrap_or(0);
            }
        }
        if let Some(a) = v["samples"].as_array() {
            for s in a {
                if self.samples.len() < self.max_samples {
                    self.samples.push(s.clone());
                }
            }
        }
        self.inconclusive_count += v["inconclusive_cases"].as_u64().unwrap_or(0);
        for r in v["run_inconclusive"].as_array().cloned().unwrap_or_default() {
            self.run_inconclusive.push(r.as_str().unwrap_or("?").to_string());
        }
        for viol in v["violations"].as_array().cloned().unwrap_or_default() {
            let sig = viol["signature"].as_str().unwrap_or("?").to_string();
            let e = self.violations.entry(sig).or_insert((0, Vec::new()));
            e.0 += viol["count"].as_u64().unwrap_or(1);
            for w in viol["witnesses"].as_array().cloned().unwrap_or_default() {
                if e.1.len() < 3 {
                    e.1.push((w["observed"].clone(), w["replay"].as_str().unwrap_or("").to_string()));
                }
            }
        }
    }

    pub fn to_json(&self) -> Value {
        let violations: Vec<Value> = self
            .violations
            .iter()
            .map(|(sig, (n, firsts))| {
                json!({
                    "signature": sig,
                    "count": n,
                    "witnesses": firsts.iter().map(|(d, p)| json!({"replay": p, "observed": d})).collect::<Vec<_>>(),
                })
            })
            .collect();
        json!({
            "property_id": self.prop,
            "engine": self.engine,
            "tier": match self.tier { Tier::Quick => "quick", Tier::Thorough => "thorough" },
            "seed": self.seed,
            "evaluations": self.evaluations,
            "distinct_nontrivial": self.distinct.len() as u64 + self.distinct_children,
            "rule": self.rule,
            "samples": self.samples,
            "observed": self.counts,
            "extra": self.extra,
            "exhaustive": self.exhaustive,
            "violations": violations,
            "inconclusive_cases": self.inconclusive_count,
            "inconclusive": self.inconclusive,
            "run_inconclusive": self.run_inconclusive,
            "wall_s": self.started.elapsed().as_secs_f64(),
        })
    }

    /// Writes the report and prints a one-line summary. The exit status is
    /// decided by the driver (`check`), which knows the known findings.
    pub fn finish(self, args: &Args) {
        let v = self.to_json();
        let text = serde_json::to_string_pretty(&v).unwrap();
        if let Some(out) = &args.out {
            if let Some(dir) = out.parent() {
                let _ = std::fs::create_dir_all(dir);
            }
            std::fs::write(out, &text).expect("write report");
        } else {
            println!("{text}");
        }
        let nviol: u64 = self.violations.values().map(|v| v.0).sum();
        eprintln!(
            "[mon {} {}] evaluations={} distinct_nontrivial={} violations={} ({} signatures) inconclusive_cases={} wall={:.1}s",
            self.prop,
            self.engine,
            self.evaluations,
            self.distinct.len() as u64 + self.distinct_children,
            nviol,
            self.violations.len(),
            self.inconclusive_count,
            self.started.elapsed().as_secs_f64()
        );
        for (sig, (n, firsts)) in &self.violations {
            eprintln!("  violation x{n}: {sig}  replay={}", firsts.first().map(|f| f.1.as_str()).unwrap_or("-"));
        }
    }
}

/// Runs `n` cases over `threads` OS threads (case index -> CaseOut), merges
/// everything into the report. A wall-clock watchdog stops handing out new
/// cases after `budget`; cases not run are reported as such (inconclusive
/// only when nothing ran).
pub fn run_cases<F>(report: &mut Report, n: u64, threads: usize, budget: Duration, f: F)
where
    F: Fn(u64) -> CaseOut + Send + Sync,
{
    let next = AtomicU64::new(0);
    let stop = AtomicBool::new(false);
    let start = Instant::now();
    let merged: Mutex<Vec<CaseOut>> = Mutex::new(Vec::new());
    let shared = Mutex::new(&mut *report);
    std::thread::scope(|s| {
        for _ in 0..threads.max(1) {
            s.spawn(|| loop {
                if stop.load(Ordering::Relaxed) {
                    break;
                }
                let i = next.fetch_add(1, Ordering::Relaxed);
                if i >= n {
                    break;
                }
                if start.elapsed() > budget {
                    stop.store(true, Ordering::Relaxed);
                    break;
                }
                let out = f(i);
                let mut pend = merged.lock();
                pend.push(out);
                if pend.len() >= 256 {
                    let batch: Vec<CaseOut> = pend.drain(..).collect();
                    drop(pend);
                    let mut r = shared.lock();
                    for o in batch {
                        r.absorb(o);
                    }
                }
            });
        }
    });
    let rest: Vec<CaseOut> = merged.lock().drain(..).collect();
    drop(shared);
    for o in rest {
        report.absorb(o);
    }
    let handed = next.load(Ordering::Relaxed).min(n);
    if stop.load(Ordering::Relaxed) {
        report.extra.insert(
            "watchdog".into(),
            json!(format!("wall-clock budget {:?} reached after {} of {} cases; the remaining cases were not run", budget, handed, n)),
        );
    }
}

/// Convenience: run an async scenario on a fresh current-thread runtime with
/// paused (virtual) time.
pub fn block_on_paused<F: std::future::Future>(fut: F) -> F::Output {
    let rt = tokio::runtime::Builder::new_current_thread()
        .enable_all()
        .start_paused(true)
        .build()
        .unwrap();
    let out = rt.block_on(fut);
    rt.shutdown_timeout(Duration::from_millis(0));
    out
}

pub fn block_on_real<F: std::future::Future>(workers: usize, fut: F) -> F::Output {
    let rt = if workers == 0 {
        tokio::runtime::Builder::new_current_thread().enable_all().build().unwrap()
    } else {
        tokio::runtime::Builder::new_multi_thread()
            .worker_threads(workers)
            .enable_all()
            .build()
            .unwrap()
    };
    let out = rt.block_on(fut);
    rt.shutdown_timeout(Duration::from_millis(50));
    out
}

pub fn read_replay(path: &std::path::Path) -> Value {
    let text = std::fs::read_to_string(path).unwrap_or_else(|e| {
        eprintln!("cannot read replay file {}: {e}", path.display());
        std::process::exit(2)
    });
    let v: Value = serde_json::from_str(&text).unwrap_or_else(|e| {
        eprintln!("replay file is not JSON: {e}");
        std::process::exit(2)
    });
    v.get("replay").cloned().unwrap_or(Value::Null)
}

pub type Shared<T> = Arc<Mutex<T>>;
