//! Engine E5 + clock: monitors for `datacake-node`. C15 (replica selection),
//! C16 (membership deltas add up), C11 (shared node clock).
use std::borrow::Cow;
use std::collections::{BTreeMap, BTreeSet};
use std::net::SocketAddr;
use std::sync::Arc;
use std::time::Duration;

use datacake_crdt::HLCTimestamp;
use datacake_node::verif as nv;
use datacake_node::{
    Clock,
    ClusterMember,
    ClusterStatistics,
    Consistency,
    ConsistencyError,
    DCAwareSelector,
    MembershipChange,
    NodeSelector,
    Nodes,
    RpcNetwork,
};
use parking_lot::Mutex;
use rand::prelude::*;
use serde_json::{json, Value};
use tokio::sync::watch;

use crate::common::*;

pub const LEVELS: [Consistency; 8] = [
    Consistency::None,
    Consistency::One,
    Consistency::Two,
    Consistency::Three,
    Consistency::Quorum,
    Consistency::LocalQuorum,
    Consistency::All,
    Consistency::EachQuorum,
];

pub fn addr(dc: usize, n: usize) -> SocketAddr {
    SocketAddr::from(([10, 1, dc as u8, n as u8 + 1], 7000))
}

/// Number of *other* nodes a level requires (the issuer counts towards majorities).
pub fn need(level: Consistency, layout: &[usize], local_dc: usize) -> usize {
    let total: usize = layout.iter().sum();
    match level {
        Consistency::None => 0,
        Consistency::One => 1,
        Consistency::Two => 2,
        Consistency::Three => 3,
        Consistency::Quorum => total / 2,
        Consistency::LocalQuorum => layout[local_dc] / 2,
        Consistency::All => total - 1,
        Consistency::EachQuorum => layout
            .iter()
            .enumerate()
            .map(|(d, c)| if d == local_dc { c / 2 } else { c / 2 + 1 })
            .sum(),
    }
}

fn all_layouts(max_dc: usize, max_nodes: usize) -> Vec<Vec<usize>> {
    let mut layouts = vec![];
    for ndc in 1..=max_dc {
        let mut cur = vec![1usize; ndc];
        'outer: loop {
            layouts.push(cur.clone());
            let mut i = 0;
            loop {
                if i == ndc {
                    break 'outer;
                }
                cur[i] += 1;
                if cur[i] <= max_nodes {
                    break;
                }
                cur[i] = 1;
                i += 1;
            }
        }
    }
    layouts
}

fn make_dcs(layout: &[usize]) -> BTreeMap<Cow<'static, str>, nv::NodeCycler> {
    let mut dcs = BTreeMap::new();
    for (d, c) in layout.iter().enumerate() {
        dcs.insert(
            Cow::Owned(format!("dc-{d}")),
            Nodes::from_vec((0..*c).map(|n| addr(d, n)).collect()).into(),
        );
    }
    dcs
}

/// The selection oracle. `members` = every member of the current layout.
fn judge_selection(
    level: Consistency,
    result: &Result<Nodes, ConsistencyError>,
    members: &BTreeSet<SocketAddr>,
    local: SocketAddr,
    required: usize,
) -> Option<(String, Value)> {
    let others = members.len() - usize::from(members.contains(&local));
    match result {
        Ok(s) => {
            let set: BTreeSet<_> = s.iter().copied().collect();
            let ctx = json!({"selected": s.iter().map(|a| a.to_string()).collect::<Vec<_>>(), "required": required, "others": others});
            if set.len() != s.len() {
                return Some((format!("duplicate-node-selected:{level:?}"), ctx));
            }
            if s.contains(&local) {
                return Some((format!("local-node-selected:{level:?}"), ctx));
            }
            if let Some(x) = s.iter().find(|a| !members.contains(a)) {
                return Some((format!("non-member-selected:{level:?}"), json!({"ctx": ctx, "stranger": x.to_string()})));
            }
            if s.len() < required {
                return Some((format!("fewer-than-required:{level:?}"), ctx));
            }
            if matches!(level, Consistency::One | Consistency::Two | Consistency::Three) && s.len() != required {
                return Some((format!("not-exactly-n:{level:?}"), ctx));
            }
            None
        },
        Err(ConsistencyError::NotEnoughNodes { live, required: r }) => {
            if others >= required {
                Some((
                    format!("not-enough-nodes-although-enough-exist:{level:?}"),
                    json!({"others": others, "required": required, "reported_live": live, "reported_required": r}),
                ))
            } else {
                None
            }
        },
        Err(e) => Some((format!("unexpected-error:{level:?}"), json!(e.to_string()))),
    }
}

fn c15_trait_case(layout: &[usize], ldc: usize, ln: usize, hist: &[Consistency], level: Consistency) -> (Option<(String, Value)>, Value) {
    let total: usize = layout.iter().sum();
    let local = addr(ldc, ln);
    let ldc_name = format!("dc-{ldc}");
    let mut dcs = make_dcs(layout);
    let members: BTreeSet<SocketAddr> = layout.iter().enumerate().flat_map(|(d, c)| (0..*c).map(move |n| addr(d, n))).collect();
    let mut sel = DCAwareSelector;
    for h in hist {
        let _ = sel.select_nodes(local, &ldc_name, total, &mut dcs, *h);
    }
    let r = sel.select_nodes(local, &ldc_name, total, &mut dcs, level);
    let desc = json!({"layout": layout, "local": [ldc, ln], "prior_selections": hist.iter().map(|h| format!("{h:?}")).collect::<Vec<_>>(), "level": format!("{level:?}"),
        "result": match &r { Ok(s) => json!(s.iter().map(|a| a.to_string()).collect::<Vec<_>>()), Err(e) => json!(e.to_string()) }});
    (judge_selection(level, &r, &members, local, need(level, layout, ldc)), desc)
}

fn level_from(s: &str) -> Consistency {
    *LEVELS.iter().find(|l| format!("{l:?}") == s).expect("level")
}

fn c15_trait(report: &mut Report, args: &Args) {
    let layouts = all_layouts(4, 4);
    report.extra.insert("layouts".into(), json!(layouts.len()));
    let n = layouts.len() as u64;
    let sub = Mutex::new(Vec::<CaseOut>::new());
    let before = report.evaluations;
    let deep = args.tier == Tier::Thorough;
    run_cases(report, n, args.threads, Duration::from_secs(args.pick(200, 1800)), |li| {
        let layout = &layouts[li as usize];
        let total: usize = layout.iter().sum();
        let mut local_outs = Vec::new();
        let mut hists: Vec<Vec<Consistency>> = vec![vec![]];
        for l1 in LEVELS {
            hists.push(vec![l1]);
        }
        for l1 in LEVELS {
            for l2 in LEVELS {
                hists.push(vec![l1, l2]);
            }
        }
        if deep && total <= 8 {
            for l1 in [Consistency::One, Consistency::Two, Consistency::Three] {
                for l2 in LEVELS {
                    for l3 in [Consistency::One, Consistency::Two, Consistency::Three] {
                        hists.push(vec![l1, l2, l3]);
                    }
                }
            }
        }
        // select_n_nodes draws data centres at random when there are more of
        // them than nodes wanted: repeat those cases
        let repeats = if layout.len() > 1 { 8 } else { 1 };
        for ldc in 0..layout.len() {
            for ln in 0..layout[ldc] {
                for hist in &hists {
                    for level in LEVELS {
                        let rep = if matches!(level, Consistency::One | Consistency::Two | Consistency::Three) { repeats } else { 1 };
                        for _ in 0..rep {
                            let (bad, desc) = c15_trait_case(layout, ldc, ln, hist, level);
                            let mut out = CaseOut::default();
                            if total >= 3 {
                                out.nontrivial = Some(hash_of(&(layout, ldc, ln, hist.iter().map(|h| format!("{h:?}")).collect::<Vec<_>>(), format!("{level:?}"))));
                            }
                            out.count("selections_judged", 1);
                            if let Some((what, d)) = bad {
                                out.violate(format!("C15:{what}"), json!({"case": desc, "why": d}));
                                out.replay = Some(json!({"mode": "trait", "layout": layout, "local": [ldc, ln],
                                    "hist": hist.iter().map(|h| format!("{h:?}")).collect::<Vec<_>>(), "level": format!("{level:?}")}));
                            }
                            if li == 37 && ldc == 0 && ln == 0 && hist.len() == 2 && format!("{level:?}") == "Two" && format!("{:?}", hist[0]) == "One" && format!("{:?}", hist[1]) == "All" {
                                out.sample = Some(desc);
                            }
                            local_outs.push(out);
                        }
                    }
                }
            }
        }
        sub.lock().append(&mut local_outs);
        CaseOut::default()
    });
    report.evaluations = before;
    for o in sub.into_inner() {
        report.absorb(o);
    }
}

/// Selector actor: sequences of membership updates interleaved with selections.
async fn c15_actor_case(seed: u64, i: u64) -> CaseOut {
    let mut rng = rng_for(seed, 0xC15, i);
    let mut out = CaseOut::default();
    let ldc = 0usize;
    let local = addr(0, 0);
    let sel = nv::start_node_selector(local, Cow::Borrowed("dc-0"), DCAwareSelector).await;
    let mut trace = Vec::new();
    let steps = rng.gen_range(3..9);
    let mut shrank = false;
    let mut prev_members: BTreeSet<SocketAddr> = BTreeSet::new();
    for _ in 0..steps {
        // new layout: dc-0 always holds the local node; other DCs come and go, sizes change
        let ndc = rng.gen_range(1..=4usize);
        let layout: Vec<usize> = (0..ndc).map(|_| rng.gen_range(1..=4usize)).collect();
        // DC names: dc-0 plus a random subset of dc-1..dc-4 (so data centres vanish and return)
        let mut names: Vec<usize> = (1..5).collect();
        names.shuffle(&mut rng);
        let mut dcs: BTreeMap<Cow<'static, str>, Nodes> = BTreeMap::new();
        let mut members = BTreeSet::new();
        let mut sized = Vec::new();
        for (k, c) in layout.iter().enumerate() {
            let name_idx = if k == 0 { 0 } else { names[k - 1] };
            // node numbering may start at an offset so that addresses change too
            let off = if k == 0 { 0 } else { rng.gen_range(0..2usize) * 4 };
            let nodes: Vec<SocketAddr> = (0..*c).map(|n| addr(name_idx, n + off)).collect();
            members.extend(nodes.iter().copied());
            dcs.insert(Cow::Owned(format!("dc-{name_idx}")), Nodes::from_vec(nodes));
            sized.push((name_idx, *c));
        }
        if prev_members.difference(&members).next().is_some() {
            shrank = true;
        }
        prev_members = members.clone();
        // now and then the update meets a backlog: 150 selection requests are queued at the selector actor
        // (more than its request queue of 100 holds) at the moment the new layout is handed over
        let mut backlog = Vec::new();
        if rng.gen_bool(0.15) {
            for k in 0..150usize {
                let mut f = Box::pin(sel.get_nodes(LEVELS[k % LEVELS.len()]));
                let _ = futures::poll!(f.as_mut());
                backlog.push(f);
            }
            out.count("layout_updates_that_met_a_backlog_of_selection_requests", 1);
        }
        nv::set_nodes(&sel, dcs.clone()).await;
        for f in backlog {
            let _ = f.await; // (answers to requests issued before the update carry no claim)
        }
        trace.push(json!({"set_nodes": dcs.iter().map(|(k, v)| (k.to_string(), v.iter().map(|a| a.to_string()).collect::<Vec<_>>())).collect::<BTreeMap<_, _>>()}));
        let mut levels = LEVELS.to_vec();
        levels.shuffle(&mut rng);
        for level in levels.into_iter().take(rng.gen_range(1..=8)) {
            let r = sel.get_nodes(level).await;
            out.count("actor_selections_judged", 1);
            let lay: Vec<usize> = sized.iter().map(|s| s.1).collect();
            let required = need(level, &lay, ldc);
            trace.push(json!({"get_nodes": format!("{level:?}"), "result": match &r { Ok(s) => json!(s.iter().map(|a| a.to_string()).collect::<Vec<_>>()), Err(e) => json!(e.to_string()) }}));
            if let Some((what, d)) = judge_selection(level, &r, &members, local, required) {
                let what = if what.starts_with("non-member-selected") { format!("departed-node-selected-after-membership-update:{level:?}") } else { what };
                out.violate(format!("C15:{what}"), json!({"trace": trace, "why": d}));
                out.replay = Some(json!({"mode": "actor", "seed": seed, "index": i}));
                return out;
            }
        }
    }
    if shrank {
        out.nontrivial = Some(hash_of(&format!("{trace:?}")));
    }
    if i == 4 {
        out.sample = Some(json!({"actor_trace": trace}));
    }
    out
}

/// The selector as the membership WATCHER feeds it: snapshots (id -> address, data centre) go through the
/// real watcher task; between snapshots single members are replaced (count preserved), move to another
/// data centre keeping id and address, join, leave, or nothing changes. After each snapshot has been
/// published the selector is asked for every level and judged against THAT snapshot.
async fn c15_watcher_case(seed: u64, i: u64, prefix: &str) -> CaseOut {
    let mut rng = rng_for(seed, 0xC15_3A7C, i);
    let mut out = CaseOut::default();
    let local = addr(0, 0);
    let sel = nv::start_node_selector(local, Cow::Borrowed("dc-0"), DCAwareSelector).await;
    // id -> (address, data centre index); id 0 is the local node in dc-0
    let mut members: BTreeMap<u8, (SocketAddr, usize)> = BTreeMap::from([(0u8, (local, 0usize))]);
    let to_membership = |m: &BTreeMap<u8, (SocketAddr, usize)>| -> nv::NodeMembership { m.iter().map(|(id, (a, d))| (*id, ClusterMember::new(*id, *a, format!("dc-{d}")))).collect() };
    let (tx, rx) = watch::channel(to_membership(&members));
    let changes = nv::spawn_membership_watcher(0, RpcNetwork::default(), sel.clone(), ClusterStatistics::default(), rx);
    let mut probe = changes.clone();
    if tokio::time::timeout(Duration::from_secs(5), probe.changed()).await.is_err() {
        out.inconclusive = Some("watcher did not publish the initial delta".into());
        return out;
    }
    let mut next_id = 1u8;
    let mut trace = Vec::new();
    let mut interesting = false;
    for step in 0..rng.gen_range(3..9) {
        let others: Vec<u8> = members.keys().copied().filter(|k| *k != 0).collect();
        let kind = if others.is_empty() { 0 } else { rng.gen_range(0..6) };
        let what = match kind {
            // join (possibly into a new data centre)
            0 | 1 => {
                let d = rng.gen_range(0..3usize);
                members.insert(next_id, (addr(d, 10 + next_id as usize), d));
                next_id += 1;
                "join"
            },
            // leave
            2 => {
                members.remove(others.choose(&mut rng).unwrap());
                "leave"
            },
            // one member replaced by a new one in the same data centre: counts unchanged
            3 => {
                let gone = *others.choose(&mut rng).unwrap();
                let (_, d) = members.remove(&gone).unwrap();
                members.insert(next_id, (addr(d, 10 + next_id as usize), d));
                next_id += 1;
                interesting = true;
                "replace (same data centre, counts unchanged)"
            },
            // a member moves to another data centre, same id, same address
            4 => {
                let id = *others.choose(&mut rng).unwrap();
                let e = members.get_mut(&id).unwrap();
                e.1 = (e.1 + 1 + rng.gen_range(0..2)) % 3;
                interesting = true;
                "data-centre move (same id and address)"
            },
            // nothing changes
            _ => "same snapshot again",
        };
        tx.send(to_membership(&members)).unwrap();
        // now and then the watcher's hand-over of the new layout meets 150 queued selection requests
        let mut backlog = Vec::new();
        if rng.gen_bool(0.15) {
            for k in 0..150usize {
                let mut f = Box::pin(sel.get_nodes(LEVELS[k % LEVELS.len()]));
                let _ = futures::poll!(f.as_mut());
                backlog.push(f);
            }
            out.count("layout_updates_that_met_a_backlog_of_selection_requests", 1);
        }
        if tokio::time::timeout(Duration::from_secs(5), probe.changed()).await.is_err() {
            out.inconclusive = Some("watcher did not publish a delta for a snapshot".into());
            return out;
        }
        for f in backlog {
            let _ = f.await;
        }
        let _ = probe.borrow_and_update();
        trace.push(json!({"step": step, "change": what, "members": members.iter().map(|(id, (a, d))| json!([id, a.to_string(), format!("dc-{d}")])).collect::<Vec<_>>()}));
        // layout of THIS snapshot: sizes per data centre in name order, position of the local data centre
        let mut by_dc: BTreeMap<usize, usize> = BTreeMap::new();
        for (_, (_, d)) in &members {
            *by_dc.entry(*d).or_insert(0) += 1;
        }
        let lay: Vec<usize> = by_dc.values().copied().collect();
        let ldc = by_dc.keys().position(|d| *d == 0).unwrap();
        let all: BTreeSet<SocketAddr> = members.values().map(|v| v.0).collect();
        let mut levels = LEVELS.to_vec();
        levels.shuffle(&mut rng);
        for level in levels.into_iter().take(rng.gen_range(2..=8)) {
            let r = sel.get_nodes(level).await;
            out.count("selections_after_a_watcher_fed_update", 1);
            let required = need(level, &lay, ldc);
            trace.push(json!({"get_nodes": format!("{level:?}"), "result": match &r { Ok(s) => json!(s.iter().map(|a| a.to_string()).collect::<Vec<_>>()), Err(e) => json!(e.to_string()) }}));
            if let Some((what, d)) = judge_selection(level, &r, &all, local, required) {
                let what = if what.starts_with("non-member-selected") { format!("departed-node-selected-after-membership-update:{level:?}") } else { what };
                out.violate(format!("{prefix}:{what}:selector-fed-by-the-membership-watcher"), json!({"trace": trace, "why": d}));
                out.replay = Some(json!({"mode": "watcher", "seed": seed, "index": i}));
                return out;
            }
        }
    }
    if interesting {
        out.nontrivial = Some(hash_of(&format!("{trace:?}")));
    }
    out
}

/// C16's reading of the same scenario: replication addresses peers through the selector.
pub fn c16_selector_cases(report: &mut Report, args: &Args) {
    let seed = args.seed;
    let n = args.pick(20_000, 500_000);
    run_cases(report, n, args.threads, Duration::from_secs(args.pick(60, 600)), |i| block_on_paused(c15_watcher_case(seed.wrapping_add(16), i, "C16:replication-would-address-the-wrong-peers")));
    report.floor("selections_after_a_watcher_fed_update", 50_000);
}

pub fn c15(args: &Args) {
    let mut report = Report::new(
        args,
        "E5-selector",
        "watcher-fed selector: 40 000 sequences of 3..8 membership snapshots (join, leave, one member REPLACED with counts unchanged, a member MOVING to another data centre with the same id and address, an unchanged snapshot) sent through the real membership watcher task; after each published change every level is asked of the selector and judged against that snapshot. trait level (exhaustive): all 340 layouts of 1-4 DCs x 1-4 nodes x every local position x all 8 levels x every history of 0,1,2 prior selections on the same persistent cursors (thorough: + length-3 histories for <= 8 nodes), One/Two/Three repeated 8x when several DCs exist (random DC choice), through the public NodeSelector trait on the real DCAwareSelector. Actor level: random sequences of 3-8 membership updates (DCs vanish/return, sizes and addresses change) interleaved with selections through the real selector actor (hook H3). Oracle: selected set is duplicate free, without the local node, only current members, >= required (exactly n for One/Two/Three); NotEnoughNodes only if fewer than required other nodes exist. Non-trivial: >= 3 nodes (trait) / a membership update removed nodes (actor); distinct = distinct (layout, position, history, level) / traces.",
    );
    if let Some(path) = &args.replay {
        let r = read_replay(path);
        if r["mode"] == "trait" {
            let layout: Vec<usize> = r["layout"].as_array().unwrap().iter().map(|v| v.as_u64().unwrap() as usize).collect();
            let hist: Vec<Consistency> = r["hist"].as_array().unwrap().iter().map(|v| level_from(v.as_str().unwrap())).collect();
            let level = level_from(r["level"].as_str().unwrap());
            let mut out = CaseOut::default();
            for _ in 0..16 {
                if let (Some((what, d)), desc) = c15_trait_case(&layout, r["local"][0].as_u64().unwrap() as usize, r["local"][1].as_u64().unwrap() as usize, &hist, level) {
                    out.violate(format!("C15:{what}"), json!({"case": desc, "why": d}));
                    break;
                }
            }
            report.absorb(out);
        } else {
            let out = block_on_paused(c15_actor_case(r["seed"].as_u64().unwrap(), r["index"].as_u64().unwrap()));
            report.absorb(out);
        }
        report.finish(args);
        return;
    }
    c15_trait(&mut report, args);
    report.exhaustive = !report.extra.contains_key("watchdog");
    let seed = args.seed;
    let n = args.pick(200_000, 3_000_000);
    run_cases(&mut report, n, args.threads, Duration::from_secs(args.pick(60, 900)), |i| block_on_paused(c15_actor_case(seed, i)));
    let n_w = args.pick(40_000, 1_000_000);
    run_cases(&mut report, n_w, args.threads, Duration::from_secs(args.pick(60, 900)), |i| block_on_paused(c15_watcher_case(seed, i, "C15")));
    report.floor("selections_after_a_watcher_fed_update", 100_000);
    report.floor("selections_judged", 100_000);
    report.floor("actor_selections_judged", 10_000);
    report.finish(args);
}

// ---------------------------------------------------------------------------
// C16
// ---------------------------------------------------------------------------

type Snapshot = BTreeMap<u8, SocketAddr>; // other ids -> address (self always present)

fn c16_addr(slot: u8) -> SocketAddr {
    SocketAddr::from(([10, 2, 0, slot + 1], 7000))
}

/// All membership states: each of ids 1..=3 is absent or sits on one of THREE shared
/// addresses, no two ids on the same address at the same time (34 states). Sharing the
/// pool lets a node be replaced by another id on the same address and two nodes swap
/// addresses within one snapshot.
fn all_snapshots() -> Vec<Snapshot> {
    let mut out = Vec::new();
    for a in 0..4u8 {
        for b in 0..4u8 {
            for c in 0..4u8 {
                let picks = [a, b, c];
                let used: Vec<u8> = picks.iter().copied().filter(|x| *x > 0).collect();
                let mut dedup = used.clone();
                dedup.sort();
                dedup.dedup();
                if dedup.len() != used.len() {
                    continue;
                }
                let mut s = Snapshot::new();
                for (i, slot) in picks.iter().enumerate() {
                    if *slot > 0 {
                        s.insert(i as u8 + 1, c16_addr(*slot));
                    }
                }
                out.push(s);
            }
        }
    }
    out
}

fn snapshot_of(code: u32) -> Snapshot {
    thread_local! {
        static ALL: Vec<Snapshot> = all_snapshots();
    }
    ALL.with(|a| a[code as usize % a.len()].clone())
}

const C16_STATES: u32 = 34;

fn membership_of(s: &Snapshot) -> nv::NodeMembership {
    let mut m: nv::NodeMembership = BTreeMap::new();
    m.insert(0, ClusterMember::new(0, c16_addr(200), "dc".into()));
    for (id, a) in s {
        m.insert(*id, ClusterMember::new(*id, *a, "dc".into()));
    }
    m
}

fn snap_json(s: &Snapshot) -> Value {
    json!(s.iter().map(|(k, v)| (k.to_string(), v.to_string())).collect::<BTreeMap<_, _>>())
}

fn fold(state: &mut BTreeMap<u8, SocketAddr>, d: &MembershipChange) {
    // the order the subscribers in this repository use: remove the departed, then add the joined
    for m in &d.left {
        state.remove(&m.node_id);
    }
    for m in &d.joined {
        state.insert(m.node_id, m.public_addr);
    }
}

fn delta_json(d: &MembershipChange) -> Value {
    json!({"joined": d.joined.iter().map(|m| json!([m.node_id, m.public_addr.to_string()])).collect::<Vec<_>>(),
           "left": d.left.iter().map(|m| json!([m.node_id, m.public_addr.to_string()])).collect::<Vec<_>>()})
}

/// One case: a snapshot sequence, a subscription point (index of the snapshot
/// after which the subscriber is created; 0 = before the first), and a read
/// mask (bit k set: the subscriber drains its stream after snapshot k).
/// The subscriber always drains after the last snapshot (quiescence).
async fn c16_case(seq: &[u32], sub_at: usize, read_mask: u32) -> CaseOut {
    let mut out = CaseOut::default();
    let sel = nv::start_node_selector(c16_addr(200), Cow::Borrowed("dc"), DCAwareSelector).await;
    let (tx, rx) = watch::channel(membership_of(&Snapshot::new()));
    let net = RpcNetwork::default();
    let changes = nv::spawn_membership_watcher(0, net.clone(), sel.clone(), ClusterStatistics::default(), rx);
    let mut probe = changes.clone();
    // the watcher publishes one (empty) delta for the initial self-only snapshot
    if tokio::time::timeout(Duration::from_secs(5), probe.changed()).await.is_err() {
        out.inconclusive = Some("watcher did not publish the initial delta".into());
        return out;
    }

    type Delta = (Vec<(u8, SocketAddr)>, Vec<(u8, SocketAddr)>); // (joined, left)
    // correct deltas, one per published value (index 0: the initial empty one)
    let mut published: Vec<Delta> = vec![(vec![], vec![])];
    let mut consumed: BTreeSet<usize> = BTreeSet::new();
    let mut subscriber: Option<watch::Receiver<MembershipChange>> = None;
    let mut first_read_done = false;
    let mut state: BTreeMap<u8, SocketAddr> = BTreeMap::new();
    let mut prev = Snapshot::new();
    let mut seen_deltas = Vec::new();
    let mut departed_seen = false;

    if sub_at == 0 {
        subscriber = Some(changes.clone());
    }
    for (k, code) in seq.iter().enumerate() {
        let snap = snapshot_of(*code);
        tx.send(membership_of(&snap)).unwrap();
        // wait for the watcher to publish the delta of this snapshot
        if tokio::time::timeout(Duration::from_secs(5), probe.changed()).await.is_err() {
            out.inconclusive = Some("watcher did not publish a delta for a snapshot".into());
            return out;
        }
        let mut joined = vec![];
        let mut left = vec![];
        for (id, a) in &snap {
            if prev.get(id) != Some(a) {
                joined.push((*id, *a));
            }
        }
        for (id, a) in &prev {
            if snap.get(id) != Some(a) {
                left.push((*id, *a));
                if !snap.contains_key(id) {
                    departed_seen = true;
                }
            }
        }
        published.push((joined, left));
        prev = snap.clone();
        if subscriber.is_none() && sub_at == k + 1 {
            subscriber = Some(changes.clone());
        }
        let last = k + 1 == seq.len();
        if let Some(sub) = subscriber.as_mut() {
            if last || (read_mask >> k) & 1 == 1 {
                // a WatchStream yields the current value on its first poll, then every change it notices
                let got = if !first_read_done {
                    first_read_done = true;
                    Some(sub.borrow_and_update().clone())
                } else if sub.has_changed().unwrap_or(false) {
                    Some(sub.borrow_and_update().clone())
                } else {
                    None
                };
                if let Some(d) = got {
                    let idx = published.len() - 1;
                    consumed.insert(idx);
                    fold(&mut state, &d);
                    seen_deltas.push(delta_json(&d));
                    // a node that disappeared - from the membership, or from the address it had (same id on a new
                    // address) - must be reported with the address it HAD
                    for (id, a) in &published[idx].1 {
                        {
                            match d.left.iter().find(|m| m.node_id == *id) {
                                Some(m) if m.public_addr == *a => {},
                                Some(m) => out.violate(
                                    "C16:departure-reported-with-wrong-address",
                                    json!({"delta": delta_json(&d), "node": id, "address_it_had": a.to_string(), "reported": m.public_addr.to_string()}),
                                ),
                                None => {}, // judged below through the folded state
                            }
                        }
                    }
                }
            }
        }
    }
    let expect: BTreeMap<u8, SocketAddr> = prev.clone();
    out.count("snapshots_driven", seq.len() as u64);
    out.count("deltas_read", seen_deltas.len() as u64);
    if departed_seen {
        out.nontrivial = Some(hash_of(&(seq, sub_at, read_mask)));
    }
    if state != expect {
        // what the *correct* deltas at the consumed positions add up to
        let mut lossy_ref: BTreeMap<u8, SocketAddr> = BTreeMap::new();
        for idx in &consumed {
            for (id, _) in &published[*idx].1 {
                lossy_ref.remove(id);
            }
            for (id, a) in &published[*idx].0 {
                lossy_ref.insert(*id, *a);
            }
        }
        let saw_everything = (0..published.len()).all(|i| consumed.contains(&i) || (published[i].0.is_empty() && published[i].1.is_empty()));
        let ctx = json!({"snapshots": seq.iter().map(|c| snap_json(&snapshot_of(*c))).collect::<Vec<_>>(), "subscribed_after_snapshot": sub_at,
            "read_after_snapshots": (0..seq.len()).filter(|k| (read_mask >> k) & 1 == 1 || k + 1 == seq.len()).collect::<Vec<_>>(),
            "deltas_seen": seen_deltas, "folded": snap_json(&state), "live": snap_json(&expect)});
        if saw_everything {
            // no delta can have been lost and the subscriber still disagrees: the deltas themselves are wrong
            let stale = state.keys().any(|k| !expect.contains_key(k));
            out.violate(
                if stale { "C16:departed-node-never-reported-as-left" } else { "C16:deltas-do-not-add-up-for-subscriber-that-saw-every-delta" },
                ctx,
            );
        } else if state == lossy_ref {
            // exactly what correct deltas over a latest-value-only channel produce
            out.violate(if sub_at > 0 { "C16:lossy-delta-channel:late-subscriber" } else { "C16:lossy-delta-channel:slow-reader" }, ctx);
        } else {
            out.violate("C16:subscriber-view-differs-beyond-delta-loss", json!({"ctx": ctx, "correct_deltas_at_consumed_positions_add_up_to": snap_json(&lossy_ref)}));
        }
        out.replay = Some(json!({"seq": seq, "sub_at": sub_at, "read_mask": read_mask}));
    }
    out
}

pub fn c16(args: &Args) {
    let mut report = Report::new(
        args,
        "E5-membership",
        "ids {1,2,3} (+ self) on a shared pool of 3 addresses (34 membership states: joins, leaves, address changes, rejoins, a node replaced by another id on the same address, two nodes swapping addresses): every sequence of L<=3 (thorough: 4) snapshots, driven through the real watch_membership_changes task (hook H3), x every subscription point (before the first snapshot ... after the last) x every placement of the subscriber's reads between snapshots. Subscriber folds joined/left in order; at quiescence (after the last snapshot, stream drained) the folded set must equal the last snapshot minus self, and every departure must carry the address last reported. Synchronisation by awaiting the watcher's output, never by sleeping. Violations are classified: prompt subscriber from the start (no delta can have been lost) vs exactly what correct deltas over a latest-value channel would give (known design limitation) vs anything else. Non-trivial = a node departed in the sequence; distinct = (sequence, subscription point, read mask).",
    );
    if let Some(path) = &args.replay {
        let r = read_replay(path);
        let seq: Vec<u32> = r["seq"].as_array().unwrap().iter().map(|v| v.as_u64().unwrap() as u32).collect();
        let out = block_on_paused(c16_case(&seq, r["sub_at"].as_u64().unwrap() as usize, r["read_mask"].as_u64().unwrap() as u32));
        report.absorb(out);
        report.finish(args);
        return;
    }
    let max_len = args.pick(3, 4) as usize;
    let mut cases: Vec<(Vec<u32>, usize, u32)> = Vec::new();
    fn rec(len: usize, cur: &mut Vec<u32>, out: &mut Vec<Vec<u32>>) {
        if cur.len() == len {
            out.push(cur.clone());
            return;
        }
        for c in 0..C16_STATES {
            // consecutive identical snapshots are a no-op for the watch channel: skip
            if cur.last() == Some(&c) || (cur.is_empty() && c == 0) {
                continue;
            }
            cur.push(c);
            rec(len, cur, out);
            cur.pop();
        }
    }
    for len in 1..=max_len {
        let mut seqs = Vec::new();
        rec(len, &mut Vec::new(), &mut seqs);
        for s in seqs {
            for sub_at in 0..=len {
                // reads only matter after the subscription; the last position is always read
                let free = len - 1;
                for mask in 0..(1u32 << free) {
                    // skip masks that differ only in positions before the subscription
                    if sub_at > 0 && mask & ((1 << (sub_at - 1).min(free)) - 1) != 0 {
                        continue;
                    }
                    cases.push((s.clone(), sub_at, mask));
                }
            }
        }
    }
    report.extra.insert("cases_enumerated".into(), json!(cases.len()));
    let n = cases.len() as u64;
    run_cases(&mut report, n, args.threads, Duration::from_secs(args.pick(240, 3000)), |i| {
        let (seq, sub_at, mask) = &cases[i as usize];
        let mut out = block_on_paused(c16_case(seq, *sub_at, *mask));
        if i == 4242 {
            out.sample = Some(json!({"snapshots": seq.iter().map(|c| snap_json(&snapshot_of(*c))).collect::<Vec<_>>(), "subscribed_after_snapshot": sub_at, "read_mask": mask}));
        }
        out
    });
    report.exhaustive = !report.extra.contains_key("watchdog");
    // replication addresses its peers (for every level but None) through the node selector, which the
    // watcher feeds from the same snapshots: after every published change the selector must answer for
    // exactly the live membership
    c16_selector_cases(&mut report, args);
    report.floor("snapshots_driven", 10_000);
    report.floor("deltas_read", 10_000);
    report.finish(args);
}

// ---------------------------------------------------------------------------
// C11
// ---------------------------------------------------------------------------

#[derive(Clone, Copy, Debug)]
enum ClockEv {
    Got { task: usize, seq: u64, ts: HLCTimestamp, started_after_token: u64 },
    Registered { remote: HLCTimestamp, token: u64, beyond_drift: bool },
}

async fn c11_round(seed: u64, round: u64, tasks: usize, calls: usize, yields: bool) -> (Vec<ClockEv>, u8) {
    let mut rng = rng_for(seed, 0xC11, round);
    let node: u8 = rng.gen_range(0..200);
    let clock = Clock::new(node);
    let log: Arc<Mutex<Vec<ClockEv>>> = Arc::new(Mutex::new(Vec::new()));
    // happens-before token: incremented when a register_ts call has RETURNED
    let token = Arc::new(std::sync::atomic::AtomicU64::new(0));
    let base = clock.get_time().await;
    let mut handles = Vec::new();
    for t in 0..tasks {
        let clock = clock.clone();
        let log = log.clone();
        let token = token.clone();
        let mut rng = rng_for(seed, 0xC11_0000 + round, t as u64);
        handles.push(tokio::spawn(async move {
            let mut local = Vec::with_capacity(calls);
            for c in 0..calls {
                if yields && rng.gen_bool(0.3) {
                    tokio::task::yield_now().await;
                }
                if rng.gen_bool(0.08) {
                    // a caller that gives up: the request is queued (polled once) and the future dropped
                    // before the clock actor's reply is taken
                    let mut fut = Box::pin(clock.get_time());
                    let _ = futures::poll!(fut.as_mut());
                    drop(fut);
                    continue;
                }
                if rng.gen_bool(0.25) {
                    // a remote stamp: mostly slightly ahead of what we have seen, sometimes far beyond the drift
                    let beyond = rng.gen_bool(0.1);
                    let ahead = if beyond { Duration::from_secs(4_200 + rng.gen_range(0..100)) } else { Duration::from_millis(rng.gen_range(0..2_000)) };
                    let remote = HLCTimestamp::new(base.datacake_timestamp() + ahead, rng.gen_range(0..50), node.wrapping_add(1 + rng.gen_range(0..50)));
                    clock.register_ts(remote).await;
                    let tk = token.fetch_add(1, std::sync::atomic::Ordering::SeqCst) + 1;
                    local.push(ClockEv::Registered { remote, token: tk, beyond_drift: beyond });
                } else {
                    let tk = token.load(std::sync::atomic::Ordering::SeqCst);
                    let ts = clock.get_time().await;
                    local.push(ClockEv::Got { task: t, seq: c as u64, ts, started_after_token: tk });
                }
            }
            log.lock().extend(local);
        }));
    }
    for h in handles {
        h.await.unwrap();
    }
    let v = log.lock().clone();
    (v, node)
}

fn c11_check(events: &[ClockEv], node: u8) -> Option<(&'static str, Value)> {
    let mut got: Vec<(HLCTimestamp, usize, u64)> = Vec::new();
    let mut regs: Vec<(u64, HLCTimestamp, bool)> = Vec::new();
    for e in events {
        match *e {
            ClockEv::Got { task, seq, ts, .. } => got.push((ts, task, seq)),
            ClockEv::Registered { remote, token, beyond_drift } => regs.push((token, remote, beyond_drift)),
        }
    }
    let mut sorted = got.clone();
    sorted.sort();
    for w in sorted.windows(2) {
        if w[0].0 == w[1].0 {
            return Some(("duplicate-stamp", json!({"stamp": crate::crdt::ts_json(w[0].0), "tasks": [w[0].1, w[1].1]})));
        }
    }
    if let Some(bad) = got.iter().find(|g| g.0.node() != node) {
        return Some(("stamp-with-foreign-node-id", json!({"stamp": crate::crdt::ts_json(bad.0)})));
    }
    let mut per_task: BTreeMap<usize, Vec<(u64, HLCTimestamp)>> = BTreeMap::new();
    for (ts, task, seq) in &got {
        per_task.entry(*task).or_default().push((*seq, *ts));
    }
    for (task, v) in per_task.iter_mut() {
        v.sort();
        for w in v.windows(2) {
            if w[1].1 <= w[0].1 {
                return Some(("task-saw-non-increasing-stamps", json!({"task": task, "first": crate::crdt::ts_json(w[0].1), "then": crate::crdt::ts_json(w[1].1)})));
            }
        }
    }
    // register happens-before: a get_time that STARTED after register_ts(r) had RETURNED must exceed r
    regs.sort();
    let mut best_upto: Vec<(u64, HLCTimestamp)> = Vec::new(); // token -> max in-drift remote with token' <= token
    let mut cur: Option<HLCTimestamp> = None;
    for (tk, r, beyond) in &regs {
        if !*beyond {
            cur = Some(cur.map_or(*r, |c| c.max(*r)));
        }
        if let Some(c) = cur {
            best_upto.push((*tk, c));
        }
    }
    for e in events {
        if let ClockEv::Got { ts, started_after_token, task, .. } = *e {
            let idx = best_upto.partition_point(|b| b.0 <= started_after_token);
            if idx > 0 {
                let r = best_upto[idx - 1].1;
                if ts <= r {
                    return Some(("stamp-not-greater-than-registered-remote", json!({"task": task, "stamp": crate::crdt::ts_json(ts), "registered_before": crate::crdt::ts_json(r)})));
                }
            }
        }
    }
    None
}

/// One logical tick used up: a remote stamp well ahead of the wall clock (but inside the allowed drift)
/// is registered, then ~65 500 stamps are requested while the logical time cannot advance - the clock
/// actor's counter runs up to its back-pressure limit (65 525) without overflowing (65 535).
async fn c11_exhaust_tick(seed: u64, round: u64) -> (Vec<ClockEv>, u8) {
    let mut rng = rng_for(seed, 0xC11_7C, round);
    let node: u8 = rng.gen_range(0..200);
    let clock = Clock::new(node);
    let base = clock.get_time().await;
    let remote = HLCTimestamp::new(base.datacake_timestamp() + Duration::from_secs(rng.gen_range(300..900)), 0, node.wrapping_add(1));
    clock.register_ts(remote).await;
    let mut events = vec![ClockEv::Registered { remote, token: 1, beyond_drift: false }];
    let tasks = 4usize;
    // goes past the back-pressure limit and stays below the u16 capacity: 1 (recv) + 4 x 16 382 = 65 529 < 65 535
    let calls = 16_382usize;
    let mut handles = Vec::new();
    for t in 0..tasks {
        let clock = clock.clone();
        handles.push(tokio::spawn(async move {
            let mut local = Vec::with_capacity(calls);
            for c in 0..calls {
                let ts = clock.get_time().await;
                local.push(ClockEv::Got { task: t, seq: c as u64, ts, started_after_token: 1 });
            }
            local
        }));
    }
    for h in handles {
        events.extend(h.await.unwrap());
    }
    (events, node)
}

/// The node clock under an injected wall clock (hook H1) that jumps forward while the clock is idle,
/// so that its logical time lags the wall by a gap G; then a remote stamp d ahead of the WALL is
/// registered. Inside the permitted drift (d <= 4090 s) every later stamp must exceed it, whatever G was;
/// stamps stay strictly increasing and carry the node id throughout.
async fn c11_idle_case(seed: u64, r: u64) -> CaseOut {
    let mut out = CaseOut::default();
    let mut rng = rng_for(seed, 0xC11_1D1E, r);
    let node: u8 = rng.gen_range(0..200);
    let offset_ms = Arc::new(std::sync::atomic::AtomicU64::new(0));
    let base = Duration::from_secs(90_000_000 + rng.gen_range(0..1_000_000));
    {
        let off = offset_ms.clone();
        datacake_crdt::verif::set_wall(Some(Box::new(move |_n| Some(base + Duration::from_millis(off.load(std::sync::atomic::Ordering::SeqCst))))));
    }
    let wall = |off: &Arc<std::sync::atomic::AtomicU64>| base + Duration::from_millis(off.load(std::sync::atomic::Ordering::SeqCst));
    let clock = Clock::new(node);
    let mut last = clock.get_time().await;
    let mut trace = Vec::new();
    for step in 0..rng.gen_range(3..9) {
        // the clock sits idle while the wall moves on
        let gap_ms = *[0u64, 4, 1_000, 100_000, 2_000_000, 4_000_000, 4_099_000, 5_000_000, 40_000_000].choose(&mut rng).unwrap();
        offset_ms.fetch_add(gap_ms, std::sync::atomic::Ordering::SeqCst);
        let ahead_ms = *[0u64, 4, 1_000, 60_000, 3_000_000, 4_000_000, 4_090_000, 4_200_000, 9_000_000].choose(&mut rng).unwrap();
        let inside = ahead_ms <= 4_090_000;
        let remote = HLCTimestamp::new(wall(&offset_ms) + Duration::from_millis(ahead_ms), rng.gen_range(0..100), node.wrapping_add(1 + rng.gen_range(0..50)));
        clock.register_ts(remote).await;
        let t = clock.get_time().await;
        trace.push(json!({"step": step, "wall_moved_on_ms_while_idle": gap_ms, "remote_ahead_of_wall_ms": ahead_ms, "remote": crate::crdt::ts_json(remote), "next_stamp": crate::crdt::ts_json(t)}));
        out.count("registrations_after_an_idle_gap", 1);
        if inside {
            out.count("registrations_inside_the_drift", 1);
        }
        if t.node() != node {
            out.violate("C11:stamp-with-foreign-node-id", json!({"trace": trace}));
            break;
        }
        if t <= last {
            out.violate("C11:task-saw-non-increasing-stamps:after-an-idle-gap", json!({"previous": crate::crdt::ts_json(last), "trace": trace}));
            break;
        }
        if inside && t <= remote {
            out.violate("C11:stamp-not-greater-than-registered-remote:after-an-idle-gap", json!({"trace": trace}));
            break;
        }
        last = t;
        // a second remote stamp on EXACTLY the tick the clock now stands on (the injected wall does not move),
        // with a counter above the clock's: registered, it must be exceeded by the next stamp as well
        if rng.gen_bool(0.5) {
            let same_tick = HLCTimestamp::new(last.datacake_timestamp(), last.counter().saturating_add(rng.gen_range(1..600)).min(60_000), node.wrapping_add(1 + rng.gen_range(0..50)));
            if same_tick > last {
                clock.register_ts(same_tick).await;
                let t2 = clock.get_time().await;
                out.count("registrations_on_the_clocks_own_tick_with_a_higher_counter", 1);
                trace.push(json!({"step": step, "remote_on_the_clocks_own_tick": crate::crdt::ts_json(same_tick), "next_stamp": crate::crdt::ts_json(t2)}));
                if t2 <= same_tick {
                    out.violate("C11:stamp-not-greater-than-registered-remote:remote-on-the-clocks-own-tick", json!({"trace": trace}));
                    break;
                }
                if t2 <= last {
                    out.violate("C11:task-saw-non-increasing-stamps:after-an-idle-gap", json!({"previous": crate::crdt::ts_json(last), "trace": trace}));
                    break;
                }
                last = t2;
            }
        }
    }
    out.nontrivial = Some(hash_of(&format!("{trace:?}")));
    if !out.violations.is_empty() {
        out.replay = Some(json!({"mode": "idle", "seed": seed, "round": r}));
    }
    datacake_crdt::verif::set_wall(None);
    out
}

pub fn c11(args: &Args) {
    let mut report = Report::new(
        args,
        "clock",
        "T tasks x M calls on one real datacake_node::Clock (the actor + flume channel + oneshot replies), mixing get_time, register_ts(remote) (10% of remotes beyond the allowed drift) and abandoned get_time requests (future polled once, then dropped), random yields; runtimes: current-thread and multi-thread with 2/4/16 workers; T in {2,4,16,64} and bursts of 2 500 tasks x 3 calls (more simultaneous callers than the actor's request queue of 1000 holds); plus 20 000 single-task sequences under an injected wall clock (hook H1) that moves on by 0 ms..11 h while the clock sits idle, after which a remote stamp 0..9000 s ahead of the WALL is registered: inside the drift (<= 4090 s) the next stamp must exceed it whatever the idle gap was; plus rounds that use up one logical tick: a remote stamp 300..900 s ahead (inside the drift) is registered and 4 tasks request 65 528 stamps while the logical time cannot advance, so the counter reaches the actor's back-pressure limit (65 525) without overflowing. Checked on the recorded history: all returned stamps pairwise distinct and carrying the node id, per task strictly increasing, every get_time that started after a register_ts(r) had returned (global happens-before token) is > r unless r was beyond the drift. Non-trivial: every round has >= 2 tasks; distinct = distinct orderings of the first 32 results by task.",
    );
    let seed = args.seed;
    let rounds = args.pick(3_000, 60_000);
    let flavours: [(usize, &str); 4] = [(0, "current-thread"), (2, "multi-2"), (4, "multi-4"), (16, "multi-16")];
    let t0 = std::time::Instant::now();
    let budget = Duration::from_secs(args.pick(120, 1500));
    for r in 0..rounds {
        if t0.elapsed() > budget {
            report.extra.insert("watchdog".into(), json!(format!("stopped after {r} rounds")));
            break;
        }
        let (workers, name) = flavours[(r % 4) as usize];
        // the last shape is a burst: far more callers at once than the clock actor's request queue
        // holds (1000), a few calls each, so that registrations meet a full queue
        let tasks = [2, 4, 16, 64, 2_500][((r / 4) % 5) as usize];
        let calls = if tasks >= 2_000 { 3 } else if tasks >= 64 { 40 } else { 120 };
        if tasks >= 2_000 {
            report.count("burst_rounds", 1);
        }
        let (events, node) = block_on_real(workers, c11_round(seed, r, tasks, calls, true));
        let mut out = CaseOut::default();
        let order: Vec<usize> = {
            let mut g: Vec<(HLCTimestamp, usize)> = events.iter().filter_map(|e| if let ClockEv::Got { ts, task, .. } = e { Some((*ts, *task)) } else { None }).collect();
            g.sort();
            g.iter().take(32).map(|x| x.1).collect()
        };
        out.nontrivial = Some(hash_of(&(name, tasks, &order)));
        out.count("stamps_returned", events.iter().filter(|e| matches!(e, ClockEv::Got { .. })).count() as u64);
        out.count("remote_stamps_registered", events.iter().filter(|e| matches!(e, ClockEv::Registered { .. })).count() as u64);
        out.counts.push((match workers { 0 => "rounds_current_thread", 2 => "rounds_multi_2", 4 => "rounds_multi_4", _ => "rounds_multi_16" }, 1));
        if let Some((what, d)) = c11_check(&events, node) {
            out.violate(format!("C11:{what}"), json!({"runtime": name, "tasks": tasks, "calls_per_task": calls, "round": r, "why": d}));
            out.replay = Some(json!({"round": r, "note": "parallel interleavings are sampled; replay re-runs the same round parameters"}));
        }
        if r == 1 {
            out.sample = Some(json!({"runtime": name, "tasks": tasks, "calls_per_task": calls, "first_results_by_task": order}));
        }
        report.absorb(out);
    }
    // idle gaps: injected wall clock (hook H1), virtual-time runtime
    {
        let n_idle = args.pick(20_000, 500_000);
        run_cases(&mut report, n_idle, args.threads, Duration::from_secs(args.pick(60, 600)), |i| block_on_paused(c11_idle_case(seed, i)));
        report.floor("registrations_inside_the_drift", 10_000);
    }
    // rounds that use up a whole logical tick (counter up to the back-pressure limit)
    for (k, (workers, name)) in flavours.iter().enumerate() {
        for j in 0..args.pick(1, 6) {
            let r = 9_000_000 + (k as u64) * 100 + j;
            let (events, node) = block_on_real(*workers, c11_exhaust_tick(seed, r));
            let mut out = CaseOut::default();
            out.nontrivial = Some(hash_of(&("exhaust-tick", name, r)));
            let max_counter = events.iter().filter_map(|e| if let ClockEv::Got { ts, .. } = e { Some(ts.counter()) } else { None }).max().unwrap_or(0);
            out.count("stamps_returned", events.len() as u64 - 1);
            out.count("rounds_that_reached_the_backpressure_limit", (max_counter >= 65_525) as u64);
            if let Some((what, d)) = c11_check(&events, node) {
                out.violate(format!("C11:{what}:logical-tick-used-up"), json!({"runtime": name, "round": r, "greatest_counter_handed_out": max_counter, "why": d}));
                out.replay = Some(json!({"round": r, "note": "re-runs the same round parameters"}));
            }
            report.absorb(out);
        }
    }
    report.floor("rounds_that_reached_the_backpressure_limit", 2);
    report.floor("stamps_returned", 50_000);
    report.floor("remote_stamps_registered", 5_000);
    report.floor("burst_rounds", 20);
    report.finish(args);
}
