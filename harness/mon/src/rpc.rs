//! Engine E3 (wire) + in-memory transport: monitors for `datacake-rpc`.
//! C13 (served iff registered) and C12 (exact bytes; damaged/short frames refused).
use std::collections::{BTreeMap, BTreeSet, HashMap};
use std::net::SocketAddr;
use std::sync::atomic::{AtomicU64, Ordering};
use std::sync::Arc;
use std::time::Duration;

use datacake_rpc::{
    async_trait,
    Channel,
    DataView,
    ErrorCode,
    Handler,
    Request,
    RpcClient,
    RpcService,
    Server,
    ServiceRegistry,
    Status,
};
use parking_lot::Mutex;
use rand::prelude::*;
use rkyv::{AlignedVec, Archive, Deserialize, Serialize};
use serde_json::{json, Value};

use crate::common::*;

// ---------------------------------------------------------------------------
// C13
// ---------------------------------------------------------------------------

#[repr(C)]
#[derive(Serialize, Deserialize, Archive, PartialEq, Debug, Clone)]
#[archive(check_bytes)]
pub struct M1(pub u32);

#[repr(C)]
#[derive(Serialize, Deserialize, Archive, PartialEq, Debug, Clone)]
#[archive(check_bytes)]
pub struct M2(pub u32);

macro_rules! svc {
    ($name:ident, $tag:expr, [$($msg:ident),*]) => {
        pub struct $name;
        impl RpcService for $name {
            fn register_handlers(r: &mut ServiceRegistry<Self>) {
                $( r.add_handler::<$msg>(); )*
            }
        }
        $(
        #[async_trait]
        impl Handler<$msg> for $name {
            type Reply = u32;
            async fn on_message(&self, m: Request<$msg>) -> Result<u32, Status> {
                Ok($tag * 1_000_000 + m.0.value())
            }
        }
        )*
    };
}

svc!(SvcA, 1, [M1]);
svc!(SvcB, 2, [M1]);
svc!(SvcC, 3, [M1, M2]);
svc!(SvcD, 4, [M2]);

/// Two instantiations of one generic service: their names differ only inside the `<...>`.
pub struct Gen<T>(std::marker::PhantomData<T>);
pub struct Alpha;
pub struct Beta;

pub trait GenTag: Send + Sync + 'static {
    const TAG: u32;
}
impl GenTag for Alpha {
    const TAG: u32 = 5;
}
impl GenTag for Beta {
    const TAG: u32 = 6;
}

impl<T: GenTag> RpcService for Gen<T> {
    fn register_handlers(r: &mut ServiceRegistry<Self>) {
        r.add_handler::<M1>();
    }
}

#[async_trait]
impl<T: GenTag> Handler<M1> for Gen<T> {
    type Reply = u32;
    async fn on_message(&self, m: Request<M1>) -> Result<u32, Status> {
        Ok(T::TAG * 1_000_000 + m.0.value())
    }
}

/// Three service TYPES registered under one service name ("shared"): P1 handles M1, P2 handles M2,
/// P3 handles both. Adding them accumulates handlers under the name (a later add of the same
/// message replaces the handler), removing the name removes all of them.
macro_rules! shared_svc {
    ($name:ident, $tag:expr, [$($msg:ident),*]) => {
        pub struct $name;
        impl RpcService for $name {
            fn service_name() -> &'static str {
                "shared"
            }
            fn register_handlers(r: &mut ServiceRegistry<Self>) {
                $( r.add_handler::<$msg>(); )*
            }
        }
        $(
        #[async_trait]
        impl Handler<$msg> for $name {
            type Reply = u32;
            async fn on_message(&self, m: Request<$msg>) -> Result<u32, Status> {
                Ok($tag * 1_000_000 + m.0.value())
            }
        }
        )*
    };
}
/// Services with short explicit names that are classic collision pairs of weak string hashes
/// (h*31+c: "Aa"/"BB"; order-insensitive sums: "ab"/"ba"): the handler table is keyed by a hash of
/// (service name, message path), two different pairs must never share an entry.
macro_rules! named_svc {
    ($name:ident, $sname:expr, $tag:expr, $msg:ident) => {
        pub struct $name;
        impl RpcService for $name {
            fn service_name() -> &'static str {
                $sname
            }
            fn register_handlers(r: &mut ServiceRegistry<Self>) {
                r.add_handler::<$msg>();
            }
        }
        #[async_trait]
        impl Handler<$msg> for $name {
            type Reply = u32;
            async fn on_message(&self, m: Request<$msg>) -> Result<u32, Status> {
                Ok($tag * 1_000_000 + m.0.value())
            }
        }
    };
}
named_svc!(SvcAa, "Aa", 10, M1);
named_svc!(SvcBB, "BB", 11, M1);
named_svc!(SvcAb, "ab", 12, M2);
named_svc!(SvcBa, "ba", 13, M2);
// names related as strings: one a strict prefix of another, one a suffix, one differing in case only
named_svc!(SvcCounter, "Counter", 14, M1);
named_svc!(SvcCounterV2, "CounterV2", 15, M1);
named_svc!(SvcUnter, "unter", 16, M1);
named_svc!(SvcLower, "counter", 17, M1);

shared_svc!(SvcP1, 7, [M1]);
shared_svc!(SvcP2, 8, [M2]);
shared_svc!(SvcP3, 9, [M1, M2]);

const SVC_NAMES: [&str; 17] = ["A", "B", "C", "D", "Gen<Alpha>", "Gen<Beta>", "P1(shared)", "P2(shared)", "P3(shared)", "Aa", "BB", "ab", "ba", "Counter", "CounterV2", "unter", "counter"];

/// (service name as the server knows it, [(probe label, tag)]) of every service type
fn c13_registers(svc: usize) -> (&'static str, Vec<(&'static str, u32)>) {
    match svc {
        0 => ("A", vec![("A/M1", 1)]),
        1 => ("B", vec![("B/M1", 2)]),
        2 => ("C", vec![("C/M1", 3), ("C/M2", 3)]),
        3 => ("D", vec![("D/M2", 4)]),
        4 => ("Gen<Alpha>", vec![("Gen<Alpha>/M1", 5)]),
        5 => ("Gen<Beta>", vec![("Gen<Beta>/M1", 6)]),
        6 => ("shared", vec![("shared/M1", 7)]),
        7 => ("shared", vec![("shared/M2", 8)]),
        8 => ("shared", vec![("shared/M1", 9), ("shared/M2", 9)]),
        9 => ("Aa", vec![("Aa/M1", 10)]),
        10 => ("BB", vec![("BB/M1", 11)]),
        11 => ("ab", vec![("ab/M2", 12)]),
        12 => ("ba", vec![("ba/M2", 13)]),
        13 => ("Counter", vec![("Counter/M1", 14)]),
        14 => ("CounterV2", vec![("CounterV2/M1", 15)]),
        15 => ("unter", vec![("unter/M1", 16)]),
        16 => ("counter", vec![("counter/M1", 17)]),
        _ => unreachable!(),
    }
}

fn c13_apply(server: &Server, action: u8) {
    let (svc, add) = ((action / 2) as usize, action % 2 == 0);
    match (svc, add) {
        (0, true) => server.add_service(SvcA),
        (1, true) => server.add_service(SvcB),
        (2, true) => server.add_service(SvcC),
        (3, true) => server.add_service(SvcD),
        (0, false) => server.remove_service(SvcA::service_name()),
        (1, false) => server.remove_service(SvcB::service_name()),
        (2, false) => server.remove_service(SvcC::service_name()),
        (3, false) => server.remove_service(SvcD::service_name()),
        (4, true) => server.add_service(Gen::<Alpha>(std::marker::PhantomData)),
        (5, true) => server.add_service(Gen::<Beta>(std::marker::PhantomData)),
        (4, false) => server.remove_service(Gen::<Alpha>::service_name()),
        (5, false) => server.remove_service(Gen::<Beta>::service_name()),
        (6, true) => server.add_service(SvcP1),
        (7, true) => server.add_service(SvcP2),
        (8, true) => server.add_service(SvcP3),
        (6, false) => server.remove_service(SvcP1::service_name()),
        (7, false) => server.remove_service(SvcP2::service_name()),
        (8, false) => server.remove_service(SvcP3::service_name()),
        (9, true) => server.add_service(SvcAa),
        (10, true) => server.add_service(SvcBB),
        (11, true) => server.add_service(SvcAb),
        (12, true) => server.add_service(SvcBa),
        (9, false) => server.remove_service(SvcAa::service_name()),
        (10, false) => server.remove_service(SvcBB::service_name()),
        (11, false) => server.remove_service(SvcAb::service_name()),
        (12, false) => server.remove_service(SvcBa::service_name()),
        (13, true) => server.add_service(SvcCounter),
        (14, true) => server.add_service(SvcCounterV2),
        (15, true) => server.add_service(SvcUnter),
        (16, true) => server.add_service(SvcLower),
        (13, false) => server.remove_service(SvcCounter::service_name()),
        (14, false) => server.remove_service(SvcCounterV2::service_name()),
        (15, false) => server.remove_service(SvcUnter::service_name()),
        (16, false) => server.remove_service(SvcLower::service_name()),
        _ => unreachable!(),
    }
}

fn action_name(a: u8) -> String {
    format!("{} {}", if a % 2 == 0 { "add" } else { "remove" }, SVC_NAMES[(a / 2) as usize])
}

/// Calls every (service, message) pair and returns what each answered:
/// Ok(tag) or Err(code).
async fn c13_probe(channel: &Channel, nonce: u32) -> Vec<(&'static str, Result<u32, String>)> {
    let mut out = Vec::new();
    macro_rules! call {
        ($svc:ident, $msg:ident, $label:expr) => {{
            let client = RpcClient::<$svc>::new(channel.clone());
            let r = client.send(&$msg(nonce)).await;
            out.push(($label, r.map(|v| v.value()).map_err(|s| format!("{:?}", s.code))));
        }};
    }
    call!(SvcA, M1, "A/M1");
    call!(SvcB, M1, "B/M1");
    call!(SvcC, M1, "C/M1");
    call!(SvcC, M2, "C/M2");
    call!(SvcD, M2, "D/M2");
    type GenAlpha = Gen<Alpha>;
    type GenBeta = Gen<Beta>;
    call!(GenAlpha, M1, "Gen<Alpha>/M1");
    call!(GenBeta, M1, "Gen<Beta>/M1");
    // the name decides, not the client's type: P3 is the only type that may send both
    call!(SvcP3, M1, "shared/M1");
    call!(SvcP3, M2, "shared/M2");
    call!(SvcAa, M1, "Aa/M1");
    call!(SvcBB, M1, "BB/M1");
    call!(SvcAb, M2, "ab/M2");
    call!(SvcBa, M2, "ba/M2");
    call!(SvcCounter, M1, "Counter/M1");
    call!(SvcCounterV2, M1, "CounterV2/M1");
    call!(SvcUnter, M1, "unter/M1");
    call!(SvcLower, M1, "counter/M1");
    out
}

const C13_LABELS: [&str; 17] = ["A/M1", "B/M1", "C/M1", "C/M2", "D/M2", "Gen<Alpha>/M1", "Gen<Beta>/M1", "shared/M1", "shared/M2", "Aa/M1", "BB/M1", "ab/M2", "ba/M2", "Counter/M1", "CounterV2/M1", "unter/M1", "counter/M1"];

/// model: probe label -> tag of the handler serving it
fn c13_expect(handlers: &BTreeMap<&'static str, u32>, nonce: u32) -> Vec<(&'static str, Result<u32, String>)> {
    C13_LABELS
        .iter()
        .map(|l| (*l, handlers.get(l).map(|tag| tag * 1_000_000 + nonce).ok_or_else(|| "ServiceUnavailable".to_string())))
        .collect()
}

async fn c13_history(server: &Server, channel: &Channel, hist: &[u8], out: &mut CaseOut) {
    // reference model: handlers accumulate under the service NAME, removing the name removes them all
    let mut handlers: BTreeMap<&'static str, u32> = BTreeMap::new();
    let mut registered: BTreeSet<usize> = BTreeSet::new();
    for (step, a) in hist.iter().enumerate() {
        c13_apply(server, *a);
        let (name, regs) = c13_registers((a / 2) as usize);
        if a % 2 == 0 {
            registered.insert((a / 2) as usize);
            for (label, tag) in regs {
                handlers.insert(label, tag);
            }
        } else {
            registered.retain(|svc| c13_registers(*svc).0 != name);
            let prefix = format!("{name}/");
            handlers.retain(|label, _| !label.starts_with(&prefix));
        }
        let nonce = step as u32 + 7;
        let got = c13_probe(channel, nonce).await;
        out.count("probe_calls", got.len() as u64);
        let want = c13_expect(&handlers, nonce);
        if got != want {
            // classify the first differing pair
            let (label, g, w) = got.iter().zip(want.iter()).find(|(g, w)| g != w).map(|(g, w)| (g.0, g.1.clone(), w.1.clone())).unwrap();
            let what = match (&g, &w) {
                (Ok(_), Err(_)) => "removed-or-never-added-service-still-served",
                (Err(_), Ok(_)) => "registered-service-refused",
                (Ok(_), Ok(_)) => "request-dispatched-to-wrong-service",
                _ => "wrong-error-for-unknown-service",
            };
            let removed_other = hist[..=step].iter().any(|x| x % 2 == 1);
            out.violate(
                format!("C13:{what}:{}", if removed_other { "after-a-removal" } else { "additions-only" }),
                json!({"history": hist.iter().map(|a| action_name(*a)).collect::<Vec<_>>(), "failing_step": step, "pair": label,
                    "got": format!("{g:?}"), "expected": format!("{w:?}"), "registered": registered.iter().map(|i| SVC_NAMES[*i]).collect::<Vec<_>>()}),
            );
            out.replay = Some(json!({"mode": "history", "hist": hist}));
            return;
        }
    }
}

/// A service whose removal takes a while: dropping it (which the server does while it updates its
/// handler table) sleeps.
pub struct SlowToDrop(pub u64);

impl Drop for SlowToDrop {
    fn drop(&mut self) {
        std::thread::sleep(Duration::from_micros(self.0));
    }
}

impl RpcService for SlowToDrop {
    fn register_handlers(r: &mut ServiceRegistry<Self>) {
        r.add_handler::<M2>();
    }
}

#[async_trait]
impl Handler<M2> for SlowToDrop {
    type Reply = u32;
    async fn on_message(&self, m: Request<M2>) -> Result<u32, Status> {
        Ok(20 * 1_000_000 + m.0.value())
    }
}

/// Requests for a service that stays registered, issued WHILE other services are added and removed
/// on other threads: none of them may be refused (removing / adding one service never disables another).
async fn c13_concurrent(seed: u64, round: u64, tcp: bool) -> CaseOut {
    let mut out = CaseOut::default();
    let mut rng = rng_for(seed, 0xC13_C0, round);
    let (addr, server) = if tcp {
        let addr = free_tcp_addr();
        match Server::listen(addr).await {
            Ok(s) => (addr, s),
            Err(e) => {
                out.inconclusive = Some(format!("cannot listen on loopback: {e}"));
                return out;
            },
        }
    } else {
        let addr = SocketAddr::from(([10, 113, (round >> 8) as u8, round as u8], 7000));
        (addr, Server::verif_in_memory(addr))
    };
    server.add_service(SvcA);
    let server = Arc::new(server);
    let stop = Arc::new(std::sync::atomic::AtomicBool::new(false));
    let churn = {
        let (server, stop) = (server.clone(), stop.clone());
        let (n, slow) = (rng.gen_range(20..120), rng.gen_range(50..3_000u64));
        tokio::task::spawn_blocking(move || {
            let mut k = 0u64;
            for _ in 0..n {
                server.add_service(SlowToDrop(slow));
                server.add_service(SvcD);
                server.remove_service(SlowToDrop::service_name());
                server.remove_service(SvcD::service_name());
                k += 4;
            }
            stop.store(true, Ordering::SeqCst);
            k
        })
    };
    let mut clients = Vec::new();
    for c in 0..3u32 {
        let stop = stop.clone();
        let client = RpcClient::<SvcA>::new(Channel::connect(addr));
        clients.push(tokio::spawn(async move {
            let (mut sent, mut refused) = (0u64, Vec::new());
            let mut nonce = c * 1_000_000;
            while !stop.load(Ordering::SeqCst) && sent < 20_000 {
                nonce += 1;
                sent += 1;
                match client.send(&M1(nonce)).await {
                    Ok(v) if v.value() == 1_000_000 + nonce => {},
                    Ok(v) => refused.push(format!("wrong reply {}", v.value())),
                    Err(e) => refused.push(format!("{:?}: {}", e.code, e.message)),
                }
                if refused.len() > 3 {
                    break;
                }
            }
            (sent, refused)
        }));
    }
    let changes = churn.await.unwrap_or(0);
    let mut total = 0;
    for c in clients {
        if let Ok((sent, refused)) = c.await {
            total += sent;
            if !refused.is_empty() {
                out.violate(
                    "C13:registered-service-refused:while-another-service-was-being-added-or-removed",
                    json!({"transport": if tcp { "tcp" } else { "in-memory" }, "requests_sent_by_this_client": sent, "first_failures": refused, "registry_changes_meanwhile": changes}),
                );
            }
        }
    }
    out.count("requests_during_registry_changes", total);
    out.count("registry_changes_under_load", changes);
    out.nontrivial = Some(hash_of(&("concurrent", round, tcp)));
    if !tcp {
        datacake_rpc::verif::unregister(addr);
    } else if let Ok(server) = Arc::try_unwrap(server) {
        server.shutdown();
    }
    if !out.violations.is_empty() {
        out.replay = Some(json!({"mode": "concurrent", "seed": seed, "round": round}));
    }
    out
}

/// Two threads change the registration of DIFFERENT services at the same instant (released together by
/// a spin flag); afterwards, with both calls returned, every service must be in the state its own
/// thread left it in (one change must not undo or lose another) and the untouched service must be served.
async fn c13_two_writers(seed: u64, round: u64) -> CaseOut {
    let mut out = CaseOut::default();
    let mut rng = rng_for(seed, 0xC13_2222, round);
    let addr = SocketAddr::from(([10, 123, (round >> 8) as u8, round as u8], 7100 + (round >> 16) as u16));
    let server = Arc::new(Server::verif_in_memory(addr));
    server.add_service(SvcA);
    // thread one owns B (and C), thread two owns D (and "Counter"); initial registrations at random
    let (b0, c0, d0, k0) = (rng.gen_bool(0.5), rng.gen_bool(0.5), rng.gen_bool(0.5), rng.gen_bool(0.5));
    if b0 {
        server.add_service(SvcB);
    }
    if c0 {
        server.add_service(SvcC);
    }
    if d0 {
        server.add_service(SvcD);
    }
    if k0 {
        server.add_service(SvcCounter);
    }
    // action codes as in c13_apply: 2/3 = add/remove B, 4/5 = C, 6/7 = D, 26/27 = Counter
    let acts1: Vec<u8> = (0..rng.gen_range(1..=3)).map(|_| *[2u8, 3, 4, 5].choose(&mut rng).unwrap()).collect();
    let acts2: Vec<u8> = (0..rng.gen_range(1..=3)).map(|_| *[6u8, 7, 26, 27].choose(&mut rng).unwrap()).collect();
    let ready = Arc::new(AtomicU64::new(0));
    let go = Arc::new(std::sync::atomic::AtomicBool::new(false));
    let spawn = |acts: Vec<u8>| {
        let (server, ready, go) = (server.clone(), ready.clone(), go.clone());
        tokio::task::spawn_blocking(move || {
            ready.fetch_add(1, Ordering::SeqCst);
            while !go.load(Ordering::Acquire) {
                std::hint::spin_loop();
            }
            for a in acts {
                c13_apply(&server, a);
            }
        })
    };
    let (t1, t2) = (spawn(acts1.clone()), spawn(acts2.clone()));
    let t0 = std::time::Instant::now();
    while ready.load(Ordering::SeqCst) < 2 && t0.elapsed() < Duration::from_secs(10) {
        tokio::task::yield_now().await;
    }
    go.store(true, Ordering::Release);
    let (_, _) = (t1.await, t2.await);
    // model: services are disjoint between the threads, so each one's final state is what its own thread did last
    let last = |init: bool, acts: &[u8], add: u8| acts.iter().rev().find(|a| **a == add || **a == add + 1).map(|a| *a == add).unwrap_or(init);
    let mut handlers: BTreeMap<&'static str, u32> = BTreeMap::new();
    handlers.insert("A/M1", 1);
    if last(b0, &acts1, 2) {
        handlers.insert("B/M1", 2);
    }
    if last(c0, &acts1, 4) {
        handlers.insert("C/M1", 3);
        handlers.insert("C/M2", 3);
    }
    if last(d0, &acts2, 6) {
        handlers.insert("D/M2", 4);
    }
    if last(k0, &acts2, 26) {
        handlers.insert("Counter/M1", 14);
    }
    let channel = Channel::connect(addr);
    let got = c13_probe(&channel, 5).await;
    let want = c13_expect(&handlers, 5);
    out.count("rounds_with_two_threads_changing_different_services_at_once", 1);
    out.count("probe_calls", got.len() as u64);
    if got != want {
        let (label, g, w) = got.iter().zip(want.iter()).find(|(g, w)| g != w).map(|(g, w)| (g.0, g.1.clone(), w.1.clone())).unwrap();
        let what = match (&g, &w) {
            (Ok(_), Err(_)) => "removed-or-never-added-service-still-served",
            (Err(_), Ok(_)) => "registered-service-refused",
            _ => "request-dispatched-to-wrong-service",
        };
        out.violate(
            format!("C13:{what}:after-two-threads-changed-different-services-at-once"),
            json!({"initially_registered": {"B": b0, "C": c0, "D": d0, "Counter": k0}, "thread_one": acts1.iter().map(|a| action_name(*a)).collect::<Vec<_>>(),
                "thread_two": acts2.iter().map(|a| action_name(*a)).collect::<Vec<_>>(), "pair": label, "got": format!("{g:?}"), "expected": format!("{w:?}")}),
        );
        out.replay = Some(json!({"mode": "two-writers", "seed": seed, "round": round, "note": "parallel interleavings are sampled; replay re-runs the same round parameters"}));
    }
    out.nontrivial = Some(hash_of(&("two-writers", &acts1, &acts2, b0, c0, d0, k0)));
    datacake_rpc::verif::unregister(addr);
    out
}

pub fn free_tcp_addr() -> SocketAddr {
    let l = std::net::TcpListener::bind("127.0.0.1:0").unwrap();
    l.local_addr().unwrap()
}

pub fn c13(args: &Args) {
    let mut report = Report::new(
        args,
        "E3-registry",
        "services A,B (message M1), C (M1,M2), D (M2) and two instantiations Gen<Alpha>, Gen<Beta> of one generic service (M1; names differing only inside <...>) on one real Server: every history of <= 5 actions out of {add X, remove X} over A-D (8 actions incl. double add, double remove, remove-unknown; 37 448 histories) over {A, Gen<Alpha>, Gen<Beta>} (6 actions; 9 330 histories) and over {A, P1, P2, P3} where P1 (M1), P2 (M2), P3 (M1,M2) are three service TYPES registered under ONE service name (7 actions; 19 607 histories; the model keeps handlers per name: adds accumulate, a later add of the same message replaces the handler, removing the name removes them all) executed on the in-memory transport (same ServerState / handler dispatch code as TCP), and over four services whose short names are collision pairs of weak string hashes ('Aa'/'BB' under h*31+c, 'ab'/'ba' under order-insensitive sums; 8 actions, 37 448 histories) executed likewise, and over four services whose names are related as strings ('Counter' a strict prefix of 'CounterV2', 'unter' a suffix of 'Counter', 'counter' differing in case only; 8 actions, 37 448 histories); after EVERY step all 17 (service name,message) pairs are called through real RpcClients: Ok with that service's tag iff the service is in the registered-names model, else ServiceUnavailable. A seeded sample of histories is repeated on a real loopback TCP server. Concurrency: on a multi-thread runtime three clients keep calling a service that stays registered while another thread adds and removes two other services (one of them slow to drop) 80..480 times: no request may be refused or misrouted; and 6 000 rounds in which two threads, released together by a spin flag, change the registration of DIFFERENT services (1-3 add/remove actions each) - afterwards every service must be in the state its own thread left it in. Non-trivial = history contains a removal; distinct = distinct histories.",
    );
    if let Some(path) = &args.replay {
        let r = read_replay(path);
        if r["mode"] == "two-writers" || r["mode"] == "concurrent" {
            // parallel interleavings are sampled: the round is run again 500 times with the same parameters
            let (sd, rd, two) = (r["seed"].as_u64().unwrap_or(1), r["round"].as_u64().unwrap_or(0), r["mode"] == "two-writers");
            let outs = block_on_real(4, async move {
                let mut outs = Vec::new();
                for _ in 0..(if two { 500 } else { 5 }) {
                    outs.push(if two { c13_two_writers(sd, rd).await } else { c13_concurrent(sd, rd, false).await });
                }
                outs
            });
            for o in outs {
                report.absorb(o);
            }
            report.finish(args);
            return;
        }
        let hist: Vec<u8> = r["hist"].as_array().unwrap().iter().map(|v| v.as_u64().unwrap() as u8).collect();
        let out = block_on_paused(async {
            let addr = SocketAddr::from(([10, 13, 0, 1], 9));
            let server = Server::verif_in_memory(addr);
            let channel = Channel::connect(addr);
            let mut out = CaseOut::default();
            c13_history(&server, &channel, &hist, &mut out).await;
            datacake_rpc::verif::unregister(addr);
            out
        });
        report.absorb(out);
        report.finish(args);
        return;
    }
    let max_len = 5usize;
    let mut hists: Vec<Vec<u8>> = Vec::new();
    fn rec(max: usize, cur: &mut Vec<u8>, out: &mut Vec<Vec<u8>>) {
        if !cur.is_empty() {
            out.push(cur.clone());
        }
        if cur.len() == max {
            return;
        }
        for a in 0..8 {
            cur.push(a);
            rec(max, cur, out);
            cur.pop();
        }
    }
    rec(max_len, &mut Vec::new(), &mut hists);
    // second universe: A and the two instantiations of the generic service (6 actions)
    {
        fn rec2(max: usize, cur: &mut Vec<u8>, out: &mut Vec<Vec<u8>>) {
            if !cur.is_empty() {
                out.push(cur.clone());
            }
            if cur.len() == max {
                return;
            }
            for a in [0u8, 1, 8, 9, 10, 11] {
                cur.push(a);
                rec2(max, cur, out);
                cur.pop();
            }
        }
        rec2(max_len, &mut Vec::new(), &mut hists);
    }
    // third universe: A and three service types sharing ONE service name (7 actions: add/remove A, add P1/P2/P3, remove "shared" x2 spellings)
    {
        fn rec3(max: usize, cur: &mut Vec<u8>, out: &mut Vec<Vec<u8>>) {
            if !cur.is_empty() {
                out.push(cur.clone());
            }
            if cur.len() == max {
                return;
            }
            for a in [0u8, 1, 12, 13, 14, 16, 17] {
                cur.push(a);
                rec3(max, cur, out);
                cur.pop();
            }
        }
        rec3(max_len, &mut Vec::new(), &mut hists);
    }
    // fourth universe: four services whose short names are collision pairs of weak string hashes (8 actions)
    {
        fn rec4(max: usize, cur: &mut Vec<u8>, out: &mut Vec<Vec<u8>>) {
            if !cur.is_empty() {
                out.push(cur.clone());
            }
            if cur.len() == max {
                return;
            }
            for a in 18u8..26 {
                cur.push(a);
                rec4(max, cur, out);
                cur.pop();
            }
        }
        rec4(max_len, &mut Vec::new(), &mut hists);
    }
    // fifth universe: four services whose names are related as strings - "Counter" is a strict prefix of
    // "CounterV2", "unter" a suffix of "Counter", "counter" differs in case only (8 actions)
    {
        fn rec5(max: usize, cur: &mut Vec<u8>, out: &mut Vec<Vec<u8>>) {
            if !cur.is_empty() {
                out.push(cur.clone());
            }
            if cur.len() == max {
                return;
            }
            for a in 26u8..34 {
                cur.push(a);
                rec5(max, cur, out);
                cur.pop();
            }
        }
        rec5(max_len, &mut Vec::new(), &mut hists);
    }
    // only maximal histories need running when every step is probed: a history
    // is a prefix of its extensions. Keep all of length max_len.
    let full: Vec<Vec<u8>> = hists.iter().filter(|h| h.len() == max_len).cloned().collect();
    report.extra.insert("histories_of_length_le_5".into(), json!(hists.len()));
    report.extra.insert("maximal_histories_executed".into(), json!(full.len()));
    let n = full.len() as u64;
    run_cases(&mut report, n, args.threads, Duration::from_secs(args.pick(200, 1200)), |i| {
        let hist = &full[i as usize];
        let mut out = block_on_paused(async {
            let addr = SocketAddr::from(([10, 13, (i >> 8) as u8, i as u8], 1000 + (i >> 16) as u16));
            let server = Server::verif_in_memory(addr);
            let channel = Channel::connect(addr);
            let mut out = CaseOut::default();
            c13_history(&server, &channel, hist, &mut out).await;
            datacake_rpc::verif::unregister(addr);
            out
        });
        if hist.iter().any(|a| a % 2 == 1) {
            out.nontrivial = Some(hash_of(hist));
        }
        out.count("histories_in_memory", 1);
        if i == 12_345 {
            out.sample = Some(json!({"history": hist.iter().map(|a| action_name(*a)).collect::<Vec<_>>()}));
        }
        out
    });
    report.exhaustive = !report.extra.contains_key("watchdog");
    // the same over real TCP (HTTP/2 on loopback), sampled
    let seed = args.seed;
    let n_tcp = args.pick(150, 3000);
    let tcp_out = block_on_real(2, async move {
        let mut outs = Vec::new();
        let mut rng = rng_for(seed, 0xC13, 0);
        for k in 0..n_tcp {
            let len = rng.gen_range(2..=7);
            let hist: Vec<u8> = (0..len).map(|_| rng.gen_range(0..34)).collect();
            let addr = free_tcp_addr();
            let server = match Server::listen(addr).await {
                Ok(s) => s,
                Err(e) => {
                    let mut o = CaseOut::default();
                    o.inconclusive = Some(format!("cannot listen on loopback: {e}"));
                    outs.push(o);
                    continue;
                },
            };
            let channel = Channel::connect(addr);
            let mut out = CaseOut::default();
            c13_history(&server, &channel, &hist, &mut out).await;
            if hist.iter().any(|a| a % 2 == 1) {
                out.nontrivial = Some(hash_of(&("tcp", &hist)));
            }
            out.count("histories_over_tcp", 1);
            if k == 0 {
                out.sample = Some(json!({"transport": "tcp", "history": hist.iter().map(|a| action_name(*a)).collect::<Vec<_>>()}));
            }
            server.shutdown();
            outs.push(out);
        }
        outs
    });
    for o in tcp_out {
        report.absorb(o);
    }
    // requests racing registry changes on other threads
    let n_conc = args.pick(24, 400);
    let conc = block_on_real(6, async move {
        let mut outs = Vec::new();
        for r in 0..n_conc {
            outs.push(c13_concurrent(seed, r, r % 4 == 3).await);
        }
        outs
    });
    for o in conc {
        report.absorb(o);
    }
    // two threads changing different services at the same instant
    let n_two = args.pick(6_000, 200_000);
    let two = block_on_real(4, async move {
        let mut outs = Vec::new();
        for r in 0..n_two {
            outs.push(c13_two_writers(seed, r).await);
        }
        outs
    });
    for o in two {
        report.absorb(o);
    }
    report.floor("rounds_with_two_threads_changing_different_services_at_once", 3_000);
    report.floor("requests_during_registry_changes", 5_000);
    report.floor("registry_changes_under_load", 1_000);
    report.floor("probe_calls", 100_000);
    report.floor("histories_over_tcp", 50);
    report.finish(args);
}

// ---------------------------------------------------------------------------
// C12
// ---------------------------------------------------------------------------

#[repr(C)]
#[derive(Serialize, Deserialize, Archive, PartialEq, Debug, Clone)]
#[archive(check_bytes)]
pub struct Fixed {
    pub a: u32,
    pub b: u64,
    pub c: [u8; 12],
}

#[repr(C)]
#[derive(Serialize, Deserialize, Archive, PartialEq, Debug, Clone)]
#[archive(check_bytes)]
pub struct Mixed {
    pub name: String,
    pub age: u32,
    pub tags: Vec<String>,
    pub blob: Vec<u8>,
    pub opt: Option<u64>,
}

#[repr(C)]
#[derive(Serialize, Deserialize, Archive, PartialEq, Debug, Clone)]
#[archive(check_bytes)]
pub struct Item {
    pub id: u64,
    pub label: String,
    pub vals: Vec<u32>,
    pub inner: Option<Box<Fixed>>,
}

#[repr(C)]
#[derive(Serialize, Deserialize, Archive, PartialEq, Debug, Clone)]
#[archive(check_bytes)]
pub struct Nested {
    pub items: Vec<Item>,
    pub map: HashMap<String, u64>,
    pub rows: Vec<Vec<u16>>,
}

#[repr(C)]
#[derive(Serialize, Deserialize, Archive, PartialEq, Debug, Clone)]
#[archive(check_bytes)]
pub struct Blob {
    pub tag: u64,
    #[with(rkyv::with::Raw)]
    pub data: Vec<u8>,
}

#[repr(C)]
#[derive(Serialize, Deserialize, Archive, PartialEq, Debug, Clone)]
#[archive(check_bytes)]
pub struct FailWith {
    pub code: u8,
    pub message: String,
}

#[derive(Default)]
pub struct Seen {
    fixed: Vec<Fixed>,
    mixed: Vec<Mixed>,
    nested: Vec<Nested>,
    blob: Vec<(u64, usize, u64)>,
}

pub struct EchoSvc {
    calls: Arc<AtomicU64>,
    seen: Arc<Mutex<Seen>>,
}

impl RpcService for EchoSvc {
    fn register_handlers(r: &mut ServiceRegistry<Self>) {
        r.add_handler::<Fixed>();
        r.add_handler::<Mixed>();
        r.add_handler::<Nested>();
        r.add_handler::<Blob>();
        r.add_handler::<FailWith>();
    }
}

fn code_of(n: u8) -> ErrorCode {
    match n % 5 {
        0 => ErrorCode::ServiceUnavailable,
        1 => ErrorCode::InternalError,
        2 => ErrorCode::InvalidPayload,
        3 => ErrorCode::ConnectionError,
        _ => ErrorCode::Timeout,
    }
}

fn fnv(data: &[u8]) -> u64 {
    let mut h = 0xcbf29ce484222325u64;
    for b in data {
        h ^= *b as u64;
        h = h.wrapping_mul(0x100000001b3);
    }
    h
}

#[async_trait]
impl Handler<Fixed> for EchoSvc {
    type Reply = Fixed;
    async fn on_message(&self, m: Request<Fixed>) -> Result<Fixed, Status> {
        self.calls.fetch_add(1, Ordering::SeqCst);
        let v = m.deserialize_view().map_err(Status::internal)?;
        // read every field through the archived view too
        if v.a != m.a.value() || v.b != m.b.value() || v.c != m.c {
            return Err(Status::internal("view and deserialized value differ"));
        }
        self.seen.lock().fixed.push(v.clone());
        Ok(v)
    }
}

#[async_trait]
impl Handler<Mixed> for EchoSvc {
    type Reply = Mixed;
    async fn on_message(&self, m: Request<Mixed>) -> Result<Mixed, Status> {
        self.calls.fetch_add(1, Ordering::SeqCst);
        let v = m.deserialize_view().map_err(Status::internal)?;
        if m.name.as_str() != v.name || m.age.value() != v.age || m.blob.as_slice() != v.blob.as_slice() || m.tags.len() != v.tags.len() {
            return Err(Status::internal("view and deserialized value differ"));
        }
        self.seen.lock().mixed.push(v.clone());
        Ok(v)
    }
}

#[async_trait]
impl Handler<Nested> for EchoSvc {
    type Reply = Nested;
    async fn on_message(&self, m: Request<Nested>) -> Result<Nested, Status> {
        self.calls.fetch_add(1, Ordering::SeqCst);
        let v = m.deserialize_view().map_err(Status::internal)?;
        self.seen.lock().nested.push(v.clone());
        Ok(v)
    }
}

#[async_trait]
impl Handler<Blob> for EchoSvc {
    type Reply = Blob;
    async fn on_message(&self, m: Request<Blob>) -> Result<Blob, Status> {
        self.calls.fetch_add(1, Ordering::SeqCst);
        self.seen.lock().blob.push((m.tag.value(), m.data.len(), fnv(&m.data)));
        Ok(Blob { tag: m.tag.value(), data: m.data.to_vec() })
    }
}

#[async_trait]
impl Handler<FailWith> for EchoSvc {
    type Reply = u32;
    async fn on_message(&self, m: Request<FailWith>) -> Result<u32, Status> {
        self.calls.fetch_add(1, Ordering::SeqCst);
        Err(Status { code: code_of(m.code), message: m.message.to_string() })
    }
}

fn gen_string(rng: &mut StdRng, max: usize) -> String {
    let n = rng.gen_range(0..=max);
    (0..n)
        .map(|_| match rng.gen_range(0..10) {
            0 => 'é',
            1 => '漢',
            2 => '\u{1F600}',
            3 => '\0',
            _ => rng.gen_range(b' '..=b'~') as char,
        })
        .collect()
}

fn gen_fixed(rng: &mut StdRng) -> Fixed {
    Fixed { a: rng.gen(), b: *[0u64, 1, u64::MAX, rng.gen()].choose(rng).unwrap(), c: rng.gen() }
}

fn gen_mixed(rng: &mut StdRng, big: bool) -> Mixed {
    let blob_len = if big { *[0usize, 1, 15, 16, 17, 255, 256, 4095, 4096, 65_535, 65_536].choose(rng).unwrap() } else { rng.gen_range(0..6) };
    Mixed {
        name: gen_string(rng, if big { 300 } else { 6 }),
        age: rng.gen(),
        tags: (0..rng.gen_range(0..if big { 20 } else { 3 })).map(|_| gen_string(rng, if big { 40 } else { 3 })).collect(),
        blob: (0..blob_len).map(|_| rng.gen()).collect(),
        opt: if rng.gen_bool(0.5) { Some(rng.gen()) } else { None },
    }
}

fn gen_nested(rng: &mut StdRng, big: bool) -> Nested {
    let n = if big { rng.gen_range(0..30) } else { rng.gen_range(0..3) };
    Nested {
        items: (0..n)
            .map(|_| Item {
                id: rng.gen(),
                label: gen_string(rng, if big { 30 } else { 3 }),
                vals: (0..rng.gen_range(0..if big { 50 } else { 3 })).map(|_| rng.gen()).collect(),
                inner: if rng.gen_bool(0.4) { Some(Box::new(gen_fixed(rng))) } else { None },
            })
            .collect(),
        map: (0..rng.gen_range(0..if big { 20 } else { 3 })).map(|_| (gen_string(rng, 8), rng.gen())).collect(),
        rows: (0..rng.gen_range(0..if big { 10 } else { 2 })).map(|_| (0..rng.gen_range(0..if big { 40 } else { 3 })).map(|_| rng.gen()).collect()).collect(),
    }
}

// Small scalar messages: archived forms with alignment 1 or 2 and sizes that are not multiples of 4
// (u16, bool, three bytes, an optional byte, a byte next to a u16). Everything else in this file is
// at least 4-byte aligned, which hides anything that pads, aligns or rounds frame bodies.
#[repr(C)]
#[derive(Serialize, Deserialize, Archive, PartialEq, Debug, Clone)]
#[archive(check_bytes)]
pub struct Tiny(pub u16);

#[repr(C)]
#[derive(Serialize, Deserialize, Archive, PartialEq, Debug, Clone)]
#[archive(check_bytes)]
pub struct Flag(pub bool);

#[repr(C)]
#[derive(Serialize, Deserialize, Archive, PartialEq, Debug, Clone)]
#[archive(check_bytes)]
pub struct Rgb {
    pub r: u8,
    pub g: u8,
    pub b: u8,
}

#[repr(C)]
#[derive(Serialize, Deserialize, Archive, PartialEq, Debug, Clone)]
#[archive(check_bytes)]
pub struct OptByte(pub Option<u8>);

#[repr(C)]
#[derive(Serialize, Deserialize, Archive, PartialEq, Debug, Clone)]
#[archive(check_bytes)]
pub struct ByteWord {
    pub a: u8,
    pub w: u16,
}

/// A message without any field: its archived form is zero-sized, its valid frame is the four-byte
/// checksum trailer alone.
#[derive(Serialize, Deserialize, Archive, PartialEq, Debug, Clone)]
#[archive(check_bytes)]
pub struct Nothing;

pub struct SmallSvc {
    seen: Arc<Mutex<Vec<String>>>,
}

impl RpcService for SmallSvc {
    fn register_handlers(r: &mut ServiceRegistry<Self>) {
        r.add_handler::<Tiny>();
        r.add_handler::<Flag>();
        r.add_handler::<Rgb>();
        r.add_handler::<OptByte>();
        r.add_handler::<ByteWord>();
        r.add_handler::<Nothing>();
    }
}

macro_rules! small_echo {
    ($ty:ident) => {
        #[async_trait]
        impl Handler<$ty> for SmallSvc {
            type Reply = $ty;
            async fn on_message(&self, m: Request<$ty>) -> Result<$ty, Status> {
                let v: $ty = m.deserialize_view().map_err(Status::internal)?;
                self.seen.lock().push(format!("{v:?}"));
                Ok(v)
            }
        }
    };
}
small_echo!(Tiny);
small_echo!(Flag);
small_echo!(Rgb);
small_echo!(OptByte);
small_echo!(ByteWord);
small_echo!(Nothing);

/// Round trips of small scalar messages over real loopback HTTP/2 and through DataView directly.
async fn c12_small_messages(seed: u64, report: &mut Report) {
    let addr = free_tcp_addr();
    let server = match Server::listen(addr).await {
        Ok(s) => s,
        Err(e) => {
            report.run_inconclusive.push(format!("cannot listen on loopback: {e}"));
            return;
        },
    };
    let seen: Arc<Mutex<Vec<String>>> = Default::default();
    server.add_service(SmallSvc { seen: seen.clone() });
    let client = RpcClient::<SmallSvc>::new(Channel::connect(addr));
    let mut rng = rng_for(seed, 0xC12, 0x5A11);
    macro_rules! trip {
        ($val:expr, $ty:ident) => {{
            let v: $ty = $val;
            let mut out = CaseOut::default();
            // (i) the frame by itself: what the sender writes must read back as the same value
            match datacake_rpc::to_view_bytes(&v) {
                Ok(bytes) => match DataView::<$ty>::using(bytes) {
                    Ok(view) => {
                        let back: Option<$ty> = view.deserialize_view().ok();
                        if back.as_ref() != Some(&v) {
                            out.violate("C12:frame-reads-back-as-a-different-value:small-scalar-message", json!({"type": stringify!($ty), "sent": format!("{v:?}"), "read_back": format!("{back:?}")}));
                        }
                    },
                    Err(_) => out.violate("C12:valid-frame-refused", json!({"type": stringify!($ty), "value": format!("{v:?}")})),
                },
                Err(e) => out.violate("C12:valid-value-not-serializable", json!({"type": stringify!($ty), "error": e.to_string()})),
            }
            // (ii) over the wire
            match client.send(&v).await {
                Ok(reply) => {
                    let back: Option<$ty> = reply.deserialize_view().ok();
                    let saw = seen.lock().pop();
                    if saw.as_deref() != Some(format!("{v:?}").as_str()) {
                        out.violate("C12:handler-observed-different-value", json!({"type": stringify!($ty), "sent": format!("{v:?}"), "handler_saw": saw}));
                    }
                    if back.as_ref() != Some(&v) {
                        out.violate("C12:client-observed-different-reply", json!({"type": stringify!($ty), "sent": format!("{v:?}"), "reply": format!("{back:?}")}));
                    }
                },
                Err(e) => out.violate("C12:valid-request-failed", json!({"type": stringify!($ty), "error": format!("{e:?}")})),
            }
            out.count("small_scalar_roundtrips", 1);
            out.nontrivial = Some(hash_of(&(stringify!($ty), format!("{v:?}"))));
            report.absorb(out);
        }};
    }
    for w in [0u16, 1, 255, 256, 0xABCD, u16::MAX] {
        trip!(Tiny(w), Tiny);
    }
    for _ in 0..4 {
        trip!(Nothing, Nothing);
    }
    for _ in 0..60 {
        trip!(Tiny(rng.gen()), Tiny);
        trip!(Flag(rng.gen()), Flag);
        trip!(Rgb { r: rng.gen(), g: rng.gen(), b: rng.gen() }, Rgb);
        trip!(OptByte(if rng.gen_bool(0.3) { None } else { Some(rng.gen()) }), OptByte);
        trip!(ByteWord { a: rng.gen(), w: rng.gen() }, ByteWord);
    }
    server.shutdown();
}

/// Raw streaming bodies: the message is a `datacake_rpc::Body` (no rkyv, no checksum trailer), sent through
/// the by-value API with request headers set on the context; the handler answers with a `Body` as well.
pub struct RawSvc {
    seen: Arc<Mutex<Vec<(usize, u32, Option<String>)>>>,
}

impl RpcService for RawSvc {
    fn register_handlers(r: &mut ServiceRegistry<Self>) {
        r.add_handler::<datacake_rpc::Body>();
    }
}

#[async_trait]
impl Handler<datacake_rpc::Body> for RawSvc {
    type Reply = datacake_rpc::Body;
    async fn on_message(&self, m: Request<datacake_rpc::Body>) -> Result<datacake_rpc::Body, Status> {
        let (headers, body) = m.into_parts();
        let tag = headers.get("x-verif-tag").and_then(|v| v.to_str().ok()).map(|s| s.to_string());
        let bytes = hyper::body::to_bytes(body.into_inner()).await.map_err(Status::internal)?;
        self.seen.lock().push((bytes.len(), crc32(&bytes), tag));
        // the reply: the request's bytes reversed (so that a reply is never mistaken for an echo of a buffer)
        let mut back = bytes.to_vec();
        back.reverse();
        Ok(datacake_rpc::Body::from(back))
    }
}

async fn c12_raw_bodies(seed: u64, report: &mut Report) {
    let addr = free_tcp_addr();
    let server = match Server::listen(addr).await {
        Ok(s) => s,
        Err(e) => {
            report.run_inconclusive.push(format!("cannot listen on loopback: {e}"));
            return;
        },
    };
    let seen: Arc<Mutex<Vec<(usize, u32, Option<String>)>>> = Default::default();
    server.add_service(RawSvc { seen: seen.clone() });
    let client = RpcClient::<RawSvc>::new(Channel::connect(addr));
    let mut rng = rng_for(seed, 0xC12, 0xB0D1);
    let mut sizes: Vec<usize> = BLOB_SIZES.iter().copied().filter(|s| *s <= 1 << 20).collect();
    for _ in 0..20 {
        sizes.push(rng.gen_range(0..100_000));
    }
    for (k, len) in sizes.into_iter().enumerate() {
        let mut out = CaseOut::default();
        let fill: u8 = rng.gen();
        let bytes: Vec<u8> = (0..len).map(|i| (i as u8).wrapping_mul(13).wrapping_add(fill)).collect();
        let tag = format!("t{k}-{len}");
        let ctx = client.create_rpc_context().set_header("x-verif-tag", http::HeaderValue::from_str(&tag).unwrap());
        match ctx.send_owned(datacake_rpc::Body::from(bytes.clone())).await {
            Ok(reply) => {
                let saw = seen.lock().pop();
                if saw.as_ref().map(|s| (s.0, s.1)) != Some((bytes.len(), crc32(&bytes))) {
                    out.violate("C12:handler-observed-different-value:raw-body", json!({"sent_len": len, "sent_crc": crc32(&bytes), "handler_saw": format!("{saw:?}")}));
                } else if saw.as_ref().and_then(|s| s.2.clone()).as_deref() != Some(tag.as_str()) {
                    out.violate("C12:handler-observed-different-request-header", json!({"sent": tag, "handler_saw": format!("{saw:?}")}));
                }
                match hyper::body::to_bytes(reply.into_inner()).await {
                    Ok(back) => {
                        let mut want = bytes.clone();
                        want.reverse();
                        if back.as_ref() != want.as_slice() {
                            out.violate("C12:client-observed-different-reply:raw-body", json!({"sent_len": len, "reply_len": back.len()}));
                        }
                    },
                    Err(e) => out.violate("C12:valid-request-failed", json!({"type": "Body", "len": len, "error": format!("reading the reply body: {e}")})),
                }
            },
            Err(e) => out.violate("C12:valid-request-failed", json!({"type": "Body", "len": len, "error": format!("{e:?}")})),
        }
        out.count("raw_body_roundtrips", 1);
        out.nontrivial = Some(hash_of(&("raw-body", len, fill)));
        report.absorb(out);
    }
    server.shutdown();
}

/// A message with reference-counted fields (rkyv archives the pointee of an `Arc` once per ARCHIVE and
/// remembers its position by address): two fields may share one pointee, the same `Arc` may travel in
/// many consecutive messages, and freshly allocated `Arc`s may reuse the address of dropped ones.
#[derive(Serialize, Deserialize, Archive, PartialEq, Debug, Clone)]
#[archive(check_bytes)]
pub struct SharedMsg {
    pub stamp: u64,
    pub a: Arc<Vec<u8>>,
    pub b: Arc<Vec<u8>>,
    pub tail: Vec<u8>,
    pub name: Arc<String>,
}

pub struct SharedSvc {
    seen: Arc<Mutex<Vec<String>>>,
}

impl RpcService for SharedSvc {
    fn register_handlers(r: &mut ServiceRegistry<Self>) {
        r.add_handler::<SharedMsg>();
    }
}

#[async_trait]
impl Handler<SharedMsg> for SharedSvc {
    type Reply = SharedMsg;
    async fn on_message(&self, m: Request<SharedMsg>) -> Result<SharedMsg, Status> {
        let v: SharedMsg = m.deserialize_view().map_err(Status::internal)?;
        self.seen.lock().push(format!("{v:?}"));
        Ok(v)
    }
}

/// Messages with shared pointers: sequences of messages serialized one after the other on one thread
/// (and sent over the wire), re-using `Arc`s across messages and recycling their addresses.
async fn c12_shared_messages(seed: u64, report: &mut Report) {
    let addr = free_tcp_addr();
    let server = match Server::listen(addr).await {
        Ok(s) => s,
        Err(e) => {
            report.run_inconclusive.push(format!("cannot listen on loopback: {e}"));
            return;
        },
    };
    let seen: Arc<Mutex<Vec<String>>> = Default::default();
    server.add_service(SharedSvc { seen: seen.clone() });
    let client = RpcClient::<SharedSvc>::new(Channel::connect(addr));
    let mut rng = rng_for(seed, 0xC12, 0x5AA);
    for seq in 0..40u64 {
        // a pool of Arcs the messages of this sequence draw from; entries are replaced now and then
        // (the old allocation is freed, the next one of that size tends to land on the same address)
        let mut pool: Vec<Arc<Vec<u8>>> = (0..3).map(|k| Arc::new(vec![b'a' + k as u8; 8 * (k + 1)])).collect();
        let mut names: Vec<Arc<String>> = vec![Arc::new("first".to_string()), Arc::new("second-name".to_string())];
        for step in 0..12u64 {
            let mut out = CaseOut::default();
            if rng.gen_bool(0.4) {
                let k = rng.gen_range(0..pool.len());
                let len = pool[k].len();
                let fill: u8 = rng.gen();
                pool[k] = Arc::new(vec![fill; len]);
            }
            if rng.gen_bool(0.2) {
                let k = rng.gen_range(0..names.len());
                let len = names[k].len();
                names[k] = Arc::new(gen_string(&mut rng, 0).chars().chain(std::iter::repeat('x')).take(len).collect());
            }
            let a = pool[rng.gen_range(0..pool.len())].clone();
            let b = if rng.gen_bool(0.4) { a.clone() } else { pool[rng.gen_range(0..pool.len())].clone() };
            let v = SharedMsg {
                stamp: rng.gen(),
                a,
                b,
                tail: (0..rng.gen_range(0..40)).map(|_| rng.gen()).collect(),
                name: names[rng.gen_range(0..names.len())].clone(),
            };
            // (i) the frame by itself, serialized on this thread right after the previous message
            match datacake_rpc::to_view_bytes(&v) {
                Ok(bytes) => match DataView::<SharedMsg>::using(bytes) {
                    Ok(view) => {
                        let back: Option<SharedMsg> = view.deserialize_view().ok();
                        if back.as_ref() != Some(&v) {
                            out.violate("C12:frame-reads-back-as-a-different-value:message-with-shared-pointers", json!({"sequence": seq, "message_no": step, "sent": format!("{v:?}"), "read_back": format!("{back:?}")}));
                        }
                    },
                    Err(_) => out.violate("C12:valid-frame-refused", json!({"type": "SharedMsg", "value": format!("{v:?}")})),
                },
                Err(e) => out.violate("C12:valid-value-not-serializable", json!({"type": "SharedMsg", "error": e.to_string()})),
            }
            // (ii) over the wire
            match client.send(&v).await {
                Ok(reply) => {
                    let back: Option<SharedMsg> = reply.deserialize_view().ok();
                    let saw = seen.lock().pop();
                    if saw.as_deref() != Some(format!("{v:?}").as_str()) {
                        out.violate("C12:handler-observed-different-value:message-with-shared-pointers", json!({"sequence": seq, "message_no": step, "sent": format!("{v:?}"), "handler_saw": saw}));
                    }
                    if back.as_ref() != Some(&v) {
                        out.violate("C12:client-observed-different-reply:message-with-shared-pointers", json!({"sequence": seq, "message_no": step, "sent": format!("{v:?}"), "reply": format!("{back:?}")}));
                    }
                },
                Err(e) => out.violate("C12:valid-request-failed", json!({"type": "SharedMsg", "error": format!("{e:?}")})),
            }
            out.count("shared_pointer_roundtrips", 1);
            if Arc::ptr_eq(&v.a, &v.b) {
                out.count("shared_pointer_messages_with_one_pointee_in_two_fields", 1);
            }
            out.nontrivial = Some(hash_of(&format!("{v:?}")));
            report.absorb(out);
        }
    }
    server.shutdown();
}

// (16 KiB = one HTTP/2 DATA frame: sizes that travel as exactly one, two, three and four chunks are all there)
const BLOB_SIZES: [usize; 24] = [0, 1, 3, 15, 16, 17, 255, 256, 257, 4095, 4096, 4097, 16_300, 16_384, 20_000, 24_576, 32_700, 33_000, 49_152, 65_536, 300_000, 1 << 20, 2 << 20, 50_000];

/// Independent bitwise CRC-32 (IEEE, reflected), not the crate the code uses.
pub fn crc32(b: &[u8]) -> u32 {
    let mut c: u32 = !0;
    for &x in b {
        c ^= x as u32;
        for _ in 0..8 {
            c = if c & 1 != 0 { (c >> 1) ^ 0xEDB8_8320 } else { c >> 1 };
        }
    }
    !c
}

fn must_refuse<T: Archive>(frame: &[u8]) -> bool {
    if frame.len() < 4 {
        return true;
    }
    let (body, tr) = frame.split_at(frame.len() - 4);
    u32::from_le_bytes(tr.try_into().unwrap()) != crc32(body) || body.len() < std::mem::size_of::<T::Archived>()
}

pub fn aligned(b: &[u8]) -> AlignedVec {
    let mut v = AlignedVec::with_capacity(b.len().max(1));
    v.extend_from_slice(b);
    v
}

pub fn mutants(frame: &[u8], rng: &mut StdRng) -> Vec<(String, Vec<u8>)> {
    let mut v = vec![];
    for i in 0..frame.len() * 8 {
        let mut f = frame.to_vec();
        f[i / 8] ^= 1 << (i % 8);
        v.push((format!("bitflip@{i}"), f));
    }
    for l in 0..frame.len() {
        v.push((format!("truncate-to-{l}"), frame[..l].to_vec()));
    }
    for e in 1..=8usize {
        let mut f = frame.to_vec();
        f.extend(std::iter::repeat(0u8).take(e));
        v.push((format!("extend-zeros-{e}"), f));
        let mut g = frame.to_vec();
        g.extend_from_slice(&frame[..e.min(frame.len())]);
        v.push((format!("extend-copy-{e}"), g));
        let mut h = frame.to_vec();
        h.extend((0..e).map(|_| rng.gen::<u8>()));
        v.push((format!("extend-random-{e}"), h));
    }
    v.push(("four-zero-bytes".into(), vec![0; 4]));
    v.push(("empty".into(), vec![]));
    // bodies shorter than the archived root, with a CORRECT trailer
    for l in [0usize, 1, 2, 3, 4, 7, 8, 12, 15] {
        let body: Vec<u8> = (0..l as u8).collect();
        let mut f = body.clone();
        f.extend_from_slice(&crc32(&body).to_le_bytes());
        v.push((format!("short-body-{l}-valid-crc"), f));
    }
    v
}

/// Path (i): the frame goes to DataView::using directly.
fn view_path<T, F>(name: &str, frame: &[u8], label: &str, original: bool, touch: F, out: &mut CaseOut)
where
    T: Archive,
    T::Archived: 'static,
    F: Fn(&DataView<T>) -> u64 + std::panic::RefUnwindSafe,
{
    let mr = must_refuse::<T>(frame);
    let data = aligned(frame);
    let r = std::panic::catch_unwind(std::panic::AssertUnwindSafe(|| DataView::<T>::using(data).map(|v| if original { touch(&v) } else { 0 }).is_ok()));
    out.count("frames_to_view", 1);
    if mr {
        out.count("frames_that_must_be_refused", 1);
    }
    match r {
        Err(_) => out.violate(
            format!("C12:view-panicked:{}", if frame.len() >= 4 && frame.len() - 4 < std::mem::size_of::<T::Archived>() { "body-shorter-than-archived-root" } else { "other" }),
            json!({"type": name, "mutant": label, "frame_len": frame.len(), "archived_size": std::mem::size_of::<T::Archived>()}),
        ),
        Ok(true) if mr => out.violate(
            format!("C12:view-accepted-frame-that-must-be-refused:{}", if frame.len() >= 4 && crc32(&frame[..frame.len() - 4]) == u32::from_le_bytes(frame[frame.len() - 4..].try_into().unwrap()) { "body-shorter-than-archived-root" } else { "checksum-mismatch" }),
            json!({"type": name, "mutant": label, "frame_len": frame.len(), "archived_size": std::mem::size_of::<T::Archived>()}),
        ),
        Ok(false) if !mr && original => out.violate("C12:valid-frame-refused", json!({"type": name, "frame_len": frame.len()})),
        _ => {},
    }
}

struct Wire {
    addr: SocketAddr,
    calls: Arc<AtomicU64>,
    seen: Arc<Mutex<Seen>>,
    client: hyper::Client<hyper::client::HttpConnector, hyper::Body>,
    _server: Server,
}

async fn wire_up() -> Result<Wire, String> {
    let addr = free_tcp_addr();
    let server = Server::listen(addr).await.map_err(|e| e.to_string())?;
    let calls = Arc::new(AtomicU64::new(0));
    let seen = Arc::new(Mutex::new(Seen::default()));
    server.add_service(EchoSvc { calls: calls.clone(), seen: seen.clone() });
    let client = hyper::Client::builder().http2_only(true).build_http::<hyper::Body>();
    Ok(Wire { addr, calls, seen, client, _server: server })
}

fn uri_for<M>(addr: SocketAddr) -> String {
    let s = |x: &str| x.replace(['<', '>'], "-");
    format!("http://{}/{}/{}", addr, s(std::any::type_name::<EchoSvc>()), s(std::any::type_name::<M>()))
}

/// Path (ii): the frame is POSTed raw (HTTP/2) to the handler's URI on a live server.
async fn post_path<M: Archive>(w: &Wire, name: &str, frame: &[u8], label: &str, out: &mut CaseOut) {
    if !must_refuse::<M>(frame) {
        return;
    }
    let before = w.calls.load(Ordering::SeqCst);
    let req = http::Request::post(uri_for::<M>(w.addr)).body(hyper::Body::from(frame.to_vec())).unwrap();
    let resp = tokio::time::timeout(Duration::from_secs(20), w.client.request(req)).await;
    out.count("raw_posts", 1);
    let short = frame.len() >= 4 && crc32(&frame[..frame.len() - 4]) == u32::from_le_bytes(frame[frame.len() - 4..].try_into().unwrap());
    let class = if short { "body-shorter-than-archived-root" } else { "checksum-mismatch" };
    let ctx = |extra: Value| json!({"type": name, "mutant": label, "frame_len": frame.len(), "observed": extra});
    match resp {
        Err(_) => out.inconclusive = Some("raw POST timed out".into()),
        Ok(Err(e)) => out.violate(format!("C12:server-dropped-connection-on-bad-frame:{class}"), ctx(json!(e.to_string()))),
        Ok(Ok(r)) => {
            let st = r.status();
            let body = hyper::body::to_bytes(r.into_body()).await.unwrap_or_default();
            let code = std::panic::catch_unwind(|| DataView::<Status>::using(aligned(&body)).ok().map(|v| format!("{:?}", v.code))).ok().flatten();
            if st != http::StatusCode::BAD_REQUEST || code.as_deref() != Some("InvalidPayload") {
                out.violate(format!("C12:bad-frame-not-refused-as-invalid-payload:{class}"), ctx(json!({"status": st.as_u16(), "code": code})));
            }
        },
    }
    if w.calls.load(Ordering::SeqCst) != before {
        out.violate(format!("C12:handler-ran-on-bad-frame:{class}"), ctx(json!("handler invocation counter moved")));
    }
}

async fn c12_roundtrips(seed: u64, n: u64, report: &mut Report) {
    let w = match wire_up().await {
        Ok(w) => w,
        Err(e) => {
            report.run_inconclusive.push(format!("cannot listen on loopback: {e}"));
            return;
        },
    };
    let channel = Channel::connect(w.addr);
    let client = RpcClient::<EchoSvc>::new(channel);
    let mut rng = rng_for(seed, 0xC12, 1);
    for i in 0..n {
        let mut out = CaseOut::default();
        let kind = i % 5;
        let big = i % 2 == 0;
        match kind {
            0 => {
                let v = gen_fixed(&mut rng);
                match client.send(&v).await {
                    Ok(reply) => {
                        let back = reply.deserialize_view().ok();
                        let seen = w.seen.lock().fixed.pop();
                        if seen.as_ref() != Some(&v) {
                            out.violate("C12:handler-observed-different-value", json!({"type": "Fixed", "sent": format!("{v:?}"), "handler_saw": format!("{seen:?}")}));
                        }
                        if back.as_ref() != Some(&v) {
                            out.violate("C12:client-observed-different-reply", json!({"type": "Fixed", "sent": format!("{v:?}"), "reply": format!("{back:?}")}));
                        }
                    },
                    Err(e) => out.violate("C12:valid-request-failed", json!({"type": "Fixed", "error": format!("{e:?}")})),
                }
                out.nontrivial = Some(hash_of(&format!("{v:?}")));
            },
            1 => {
                let v = gen_mixed(&mut rng, big);
                match client.send(&v).await {
                    Ok(reply) => {
                        let back = reply.deserialize_view().ok();
                        let seen = w.seen.lock().mixed.pop();
                        if seen.as_ref() != Some(&v) {
                            out.violate("C12:handler-observed-different-value", json!({"type": "Mixed", "sent_name_len": v.name.len(), "blob_len": v.blob.len()}));
                        }
                        if back.as_ref() != Some(&v) {
                            out.violate("C12:client-observed-different-reply", json!({"type": "Mixed", "sent_name_len": v.name.len(), "blob_len": v.blob.len()}));
                        }
                    },
                    Err(e) => out.violate("C12:valid-request-failed", json!({"type": "Mixed", "error": format!("{e:?}")})),
                }
                out.nontrivial = Some(hash_of(&format!("{v:?}")));
                if i == 1 {
                    out.sample = Some(json!({"roundtrip": "Mixed", "value": format!("{v:?}").chars().take(300).collect::<String>()}));
                }
            },
            2 => {
                let v = gen_nested(&mut rng, big);
                match client.send(&v).await {
                    Ok(reply) => {
                        let back = reply.deserialize_view().ok();
                        let seen = w.seen.lock().nested.pop();
                        if seen.as_ref() != Some(&v) {
                            out.violate("C12:handler-observed-different-value", json!({"type": "Nested", "items": v.items.len()}));
                        }
                        if back.as_ref() != Some(&v) {
                            out.violate("C12:client-observed-different-reply", json!({"type": "Nested", "items": v.items.len()}));
                        }
                    },
                    Err(e) => out.violate("C12:valid-request-failed", json!({"type": "Nested", "error": format!("{e:?}")})),
                }
                out.nontrivial = Some(hash_of(&format!("{:?}", (v.items.len(), v.map.len(), v.rows.len(), i))));
            },
            3 => {
                let len = BLOB_SIZES[(i / 5) as usize % BLOB_SIZES.len()];
                let data: Vec<u8> = (0..len).map(|_| rng.gen()).collect();
                let v = Blob { tag: i, data };
                match client.send(&v).await {
                    Ok(reply) => {
                        let seen = w.seen.lock().blob.pop();
                        if seen != Some((i, len, fnv(&v.data))) {
                            out.violate("C12:handler-observed-different-value", json!({"type": "Blob", "len": len, "handler_saw": format!("{seen:?}")}));
                        }
                        if reply.tag.value() != i || reply.data.as_slice() != v.data.as_slice() {
                            out.violate("C12:client-observed-different-reply", json!({"type": "Blob", "len": len, "reply_len": reply.data.len()}));
                        }
                    },
                    Err(e) => out.violate("C12:valid-request-failed", json!({"type": "Blob", "len": len, "error": format!("{e:?}")})),
                }
                out.count("blob_bytes_roundtripped", len as u64);
                out.nontrivial = Some(hash_of(&("blob", len, i)));
            },
            _ => {
                let code: u8 = rng.gen_range(0..5);
                let message = gen_string(&mut rng, if big { 2000 } else { 5 });
                match client.send(&FailWith { code, message: message.clone() }).await {
                    Ok(v) => out.violate("C12:handler-error-became-success", json!({"reply": v.value()})),
                    Err(s) => {
                        if s.code != code_of(code) || s.message != message {
                            out.violate("C12:handler-error-changed-in-transit", json!({"sent_code": format!("{:?}", code_of(code)), "got_code": format!("{:?}", s.code), "sent_message_len": message.len(), "got_message_len": s.message.len()}));
                        }
                    },
                }
                out.count("handler_errors_roundtripped", 1);
                out.nontrivial = Some(hash_of(&("err", code, &message)));
            },
        }
        out.count("roundtrips_over_tcp", 1);
        if !out.violations.is_empty() {
            out.replay = Some(json!({"mode": "roundtrip", "seed": seed, "index": i}));
        }
        report.absorb(out);
    }
}

pub const C12_FAMILIES: usize = 18;

/// One frame family = one valid frame of one message type and all its
/// mutants. Runs in a child process: rustc's debug checks (misaligned
/// dereference, unsafe preconditions) abort the process instead of unwinding,
/// and a release build can simply crash; the parent turns an aborted child
/// into a violation naming the mutant recorded in the progress file.
async fn c12_family(seed: u64, fam: usize, skip: &[usize], progress: Option<&std::path::Path>, report: &mut Report, over_tcp_every: usize) {
    let w = match wire_up().await {
        Ok(w) => w,
        Err(e) => {
            report.run_inconclusive.push(format!("cannot listen on loopback: {e}"));
            return;
        },
    };
    let mut rng = rng_for(seed, 0xC12, 100 + fam as u64);
    macro_rules! family {
        ($ty:ty, $name:expr, $val:expr, $touch:expr) => {{
            let val: $ty = $val;
            let frame = datacake_rpc::to_view_bytes(&val).expect("serialize").to_vec();
            if frame.len() > 320 {
                panic!("frame for {} too large for the exhaustive mutant set: {}", $name, frame.len());
            }
            let note = |k: usize, label: &str, len: usize| {
                if let Some(p) = progress {
                    let _ = std::fs::write(p, format!("{}\n{}\n{}\n{}\n{}", k, $name, label, len, std::mem::size_of::<<$ty as Archive>::Archived>()));
                }
            };
            // the valid frame itself
            note(usize::MAX, "original", frame.len());
            let mut out = CaseOut::default();
            view_path::<$ty, _>($name, &frame, "original", true, $touch, &mut out);
            out.count("valid_frames", 1);
            report.absorb(out);
            let ms = mutants(&frame, &mut rng);
            for (k, (label, m)) in ms.iter().enumerate() {
                // frames with a matching checksum and enough bytes carry no claim
                // (forged content is outside the statement): not generated
                if !must_refuse::<$ty>(m) || skip.contains(&k) {
                    continue;
                }
                note(k, label, m.len());
                let mut out = CaseOut::default();
                view_path::<$ty, _>($name, m, label, false, $touch, &mut out);
                // (Status is a reply type: no handler takes it as a request)
                if $name != "Status" && over_tcp_every > 0 && (k % over_tcp_every == 0 || m.len() < 24) {
                    post_path::<$ty>(&w, $name, m, label, &mut out).await;
                }
                out.nontrivial = Some(hash_of(&($name, m)));
                if !out.violations.is_empty() {
                    out.replay = Some(json!({"mode": "frame", "type": $name, "frame_hex": m.iter().map(|b| format!("{b:02x}")).collect::<String>()}));
                }
                if k == 100 {
                    out.sample = Some(json!({"type": $name, "mutant": label, "frame_len": m.len(), "valid_frame_len": frame.len(), "archived_size": std::mem::size_of::<<$ty as Archive>::Archived>()}));
                }
                report.absorb(out);
            }
        }};
    }
    match fam % 6 {
        0 => family!(Fixed, "Fixed", gen_fixed(&mut rng), |v: &DataView<Fixed>| v.a.value() as u64 + v.b.value() + v.c[11] as u64),
        1 => family!(Mixed, "Mixed", gen_mixed(&mut rng, false), |v: &DataView<Mixed>| v.name.len() as u64 + v.age.value() as u64 + v.tags.iter().map(|t| t.len() as u64).sum::<u64>() + v.blob.iter().map(|b| *b as u64).sum::<u64>() + v.opt.as_ref().map(|x| x.value()).unwrap_or(0)),
        2 => family!(Nested, "Nested", gen_nested(&mut rng, false), |v: &DataView<Nested>| v.items.iter().map(|i| i.id.value() ^ i.label.len() as u64 ^ i.vals.iter().map(|x| x.value() as u64).sum::<u64>()).sum::<u64>() + v.map.len() as u64 + v.rows.iter().map(|r| r.len() as u64).sum::<u64>()),
        3 => family!(Blob, "Blob", Blob { tag: 7, data: (0..rng.gen_range(0..40)).map(|_| rng.gen()).collect() }, |v: &DataView<Blob>| v.tag.value() + v.data.iter().map(|b| *b as u64).sum::<u64>()),
        4 => family!(FailWith, "FailWith", FailWith { code: 2, message: gen_string(&mut rng, 5) }, |v: &DataView<FailWith>| v.code as u64 + v.message.len() as u64),
        _ => family!(Status, "Status", Status::internal("boom"), |v: &DataView<Status>| v.message.len() as u64),
    }
}

/// Child entry point: `mon C12-family --fam K [--skip a,b] --progress P --out O`.
pub fn c12_family_child(args: &Args) {
    if std::env::var("MON_PANIC_MSGS").is_err() {
        std::panic::set_hook(Box::new(|_| {}));
    }
    let mut report = Report::new(args, "E3-wire-family", "child");
    let fam = args.opt_u64("fam", 0) as usize;
    let skip: Vec<usize> = args.opt_str("skip").unwrap_or("").split(',').filter_map(|s| s.parse().ok()).collect();
    let progress = args.opt_str("progress").map(std::path::PathBuf::from);
    let every = args.opt_u64("tcp-every", 5) as usize;
    let seed = args.seed;
    block_on_real(2, c12_family(seed, fam, &skip, progress.as_deref(), &mut report, every));
    report.finish(args);
}

fn c12_frames_in_children(args: &Args, report: &mut Report, every: usize, build: &str) {
    let exe = std::env::current_exe().expect("own path");
    let dir = scratch_dir("c12");
    for fam in 0..C12_FAMILIES {
        let mut skip: Vec<usize> = Vec::new();
        loop {
            let progress = dir.join(format!("progress-{fam}"));
            let out = dir.join(format!("out-{fam}.json"));
            let _ = std::fs::remove_file(&progress);
            let _ = std::fs::remove_file(&out);
            let status = std::process::Command::new(&exe)
                .arg("C12-family")
                .args(["--seed", &args.seed.to_string(), "--fam", &fam.to_string(), "--tcp-every", &every.to_string()])
                .args(["--skip", &skip.iter().map(|k| k.to_string()).collect::<Vec<_>>().join(",")])
                .arg("--progress")
                .arg(&progress)
                .arg("--out")
                .arg(&out)
                .stderr(std::process::Stdio::null())
                .status();
            let ok = matches!(&status, Ok(s) if s.success()) && out.exists();
            if ok {
                let v: Value = serde_json::from_slice(&std::fs::read(&out).unwrap()).unwrap();
                report.merge_child(&v);
                report.count("frame_families_completed", 1);
                break;
            }
            // the child died: the progress file names the frame it was looking at
            let text = std::fs::read_to_string(&progress).unwrap_or_default();
            let parts: Vec<&str> = text.lines().collect();
            if parts.len() < 5 || skip.len() > 60 {
                report.run_inconclusive.push(format!("frame family {fam}: child failed ({status:?}) without usable progress information"));
                break;
            }
            let k: usize = parts[0].parse().unwrap_or(usize::MAX);
            let (len, arch): (usize, usize) = (parts[3].parse().unwrap_or(0), parts[4].parse().unwrap_or(0));
            let class = if len >= 4 && len - 4 < arch { "body-shorter-than-archived-root" } else { "other" };
            report.add_violation(
                Violation {
                    signature: format!("C12:process-crashed-while-handling-frame:{class}"),
                    detail: json!({"build": build, "type": parts[1], "mutant": parts[2], "frame_len": len, "archived_size": arch, "child_status": format!("{status:?}")}),
                },
                Some(json!({"mode": "family", "fam": fam, "mutant_index": k})),
            );
            report.count("child_processes_crashed", 1);
            if k == usize::MAX {
                report.run_inconclusive.push(format!("frame family {fam}: child crashed on the VALID frame"));
                break;
            }
            skip.push(k);
        }
    }
    let _ = std::fs::remove_dir_all(&dir);
}

/// Large frames (a few KiB .. 300 KiB, sizes around the 4 / 16 / 64 KiB block boundaries): the
/// mutant set cannot be exhaustive, so it concentrates on where a block-wise or partial checksum
/// would be blind: every bit of the first 32 and the last 96 bytes of the frame, one bit in every
/// 1 KiB block, 300 random bits, truncations and extensions. Every one must be refused.
async fn c12_large_frames(seed: u64, report: &mut Report, over_tcp_every: usize) {
    let w = match wire_up().await {
        Ok(w) => w,
        Err(e) => {
            report.run_inconclusive.push(format!("cannot listen on loopback: {e}"));
            return;
        },
    };
    let mut rng = rng_for(seed, 0xC12, 0x1A26E);
    let mut sizes: Vec<usize> = vec![4_090, 4_096, 4_100, 8_191, 16_340, 16_350, 16_364, 16_380, 16_384, 16_385, 16_400, 20_000, 32_768, 32_790, 49_152, 49_200, 65_535, 65_536, 65_600, 131_072, 300_000];
    for _ in 0..6 {
        sizes.push(rng.gen_range(4_000..120_000));
    }
    for (si, size) in sizes.iter().enumerate() {
        let val = Blob { tag: 0x0102_0304_0506_0708, data: (0..*size).map(|_| rng.gen()).collect() };
        let frame = datacake_rpc::to_view_bytes(&val).expect("serialize").to_vec();
        let mut out = CaseOut::default();
        view_path::<Blob, _>("Blob", &frame, "original", true, |v: &DataView<Blob>| v.tag.value() + v.data.len() as u64, &mut out);
        out.count("valid_large_frames", 1);
        report.absorb(out);
        let nbits = frame.len() * 8;
        let mut bits: BTreeSet<usize> = BTreeSet::new();
        bits.extend(0..(32 * 8).min(nbits));
        bits.extend(nbits.saturating_sub(96 * 8)..nbits);
        for blk in 0..frame.len() / 1024 + 1 {
            let lo = blk * 1024 * 8;
            if lo < nbits {
                bits.insert(rng.gen_range(lo..(lo + 1024 * 8).min(nbits)));
            }
        }
        for _ in 0..300 {
            bits.insert(rng.gen_range(0..nbits));
        }
        let mut ms: Vec<(String, Vec<u8>)> = Vec::new();
        for b in bits {
            let mut f = frame.clone();
            f[b / 8] ^= 1 << (b % 8);
            ms.push((format!("bitflip@{b}"), f));
        }
        for cut in 1..=8usize {
            ms.push((format!("truncate-by-{cut}"), frame[..frame.len() - cut].to_vec()));
        }
        for _ in 0..12 {
            let l = rng.gen_range(24..frame.len());
            ms.push((format!("truncate-to-{l}"), frame[..l].to_vec()));
        }
        for e in 1..=4usize {
            let mut f = frame.clone();
            f.extend((0..e).map(|_| rng.gen::<u8>()));
            ms.push((format!("extend-random-{e}"), f));
        }
        for (k, (label, m)) in ms.iter().enumerate() {
            if !must_refuse::<Blob>(m) {
                continue;
            }
            let mut out = CaseOut::default();
            view_path::<Blob, _>("Blob", m, label, false, |_| 0, &mut out);
            if over_tcp_every > 0 && k % (over_tcp_every * 40) == 0 {
                post_path::<Blob>(&w, "Blob", m, label, &mut out).await;
            }
            out.count("large_frame_mutants", 1);
            out.nontrivial = Some(hash_of(&("large", si, label)));
            if !out.violations.is_empty() {
                // (the frame itself is too large for a replay file: size, seed and mutant name identify it)
                out.replay = Some(json!({"mode": "large-frame", "seed": seed, "body_size": size, "mutant": label}));
                for v in out.violations.iter_mut() {
                    v.signature = format!("{}:large-frame", v.signature);
                }
            }
            report.absorb(out);
        }
    }
}

/// Client side: every bit of small replies corrupted in transit must surface
/// as an error, never as a value (in-memory transport, CorruptReply verdict).
async fn c12_corrupt_replies(report: &mut Report) {
    let addr = SocketAddr::from(([10, 12, 0, 1], 12));
    let server = Server::verif_in_memory(addr);
    let calls = Arc::new(AtomicU64::new(0));
    server.add_service(EchoSvc { calls: calls.clone(), seen: Arc::new(Mutex::new(Seen::default())) });
    let client = RpcClient::<EchoSvc>::new(Channel::connect(addr));
    let v = Fixed { a: 0xdead_beef, b: 42, c: [9; 12] };
    let reply_len = datacake_rpc::to_view_bytes(&v).unwrap().len();
    let bit = Arc::new(AtomicU64::new(u64::MAX));
    let b2 = bit.clone();
    datacake_rpc::verif::set_policy(
        addr,
        Some(Arc::new(move |_m| {
            let b = b2.load(Ordering::SeqCst);
            Box::pin(async move {
                if b == u64::MAX {
                    datacake_rpc::verif::Verdict::Deliver
                } else {
                    datacake_rpc::verif::Verdict::CorruptReply(b as usize)
                }
            })
        })),
    );
    for b in 0..(reply_len * 8) as u64 {
        bit.store(b, Ordering::SeqCst);
        let mut out = CaseOut::default();
        let r = std::panic::AssertUnwindSafe(client.send(&v));
        let r = futures::FutureExt::catch_unwind(r).await;
        out.count("corrupted_replies", 1);
        out.nontrivial = Some(hash_of(&("corrupt-reply", b)));
        match r {
            Err(_) => out.violate("C12:client-panicked-on-corrupted-reply", json!({"bit": b})),
            Ok(Ok(_)) => out.violate("C12:client-accepted-corrupted-reply", json!({"bit": b, "reply_len": reply_len})),
            Ok(Err(s)) => {
                if s.code != ErrorCode::InvalidPayload {
                    out.violate("C12:corrupted-reply-not-reported-as-invalid-payload", json!({"bit": b, "code": format!("{:?}", s.code)}));
                }
            },
        }
        report.absorb(out);
    }
    // same for an error reply
    for b in 0..64u64 {
        bit.store(b, Ordering::SeqCst);
        let mut out = CaseOut::default();
        let r = futures::FutureExt::catch_unwind(std::panic::AssertUnwindSafe(client.send(&FailWith { code: 1, message: "x".into() }))).await;
        out.count("corrupted_replies", 1);
        match r {
            Err(_) => out.violate("C12:client-panicked-on-corrupted-reply", json!({"bit": b, "reply": "error status"})),
            Ok(Ok(_)) => out.violate("C12:client-accepted-corrupted-reply", json!({"bit": b, "reply": "error status"})),
            Ok(Err(s)) => {
                if s.code != ErrorCode::InvalidPayload {
                    out.violate("C12:corrupted-reply-not-reported-as-invalid-payload", json!({"bit": b, "code": format!("{:?}", s.code), "reply": "error status"}));
                }
            },
        }
        report.absorb(out);
    }
    datacake_rpc::verif::unregister(addr);
}

pub fn c12(args: &Args) {
    let mut report = Report::new(
        args,
        "E3-wire",
        "round trips over a real loopback HTTP/2 server: generated Fixed / Mixed (strings, vectors, options, blobs to 64 KiB) / Nested (vectors of structs, boxed options, hash maps, rows) / Blob (0 B..2 MiB, rkyv Raw) values and handler errors of every ErrorCode with arbitrary messages; handler-side decoded value and client-side reply compared with what was sent. Frame monitor: for 18 valid frames (6 message types x 3 values, <= 320 B) EVERY single-bit flip, EVERY truncation, extensions by 1..8 bytes (zeros, copies, random), the 4-zero-byte frame, the empty frame and bodies shorter than the archived root carrying a CORRECT checksum go (i) to DataView::using under catch_unwind and (ii, sampled + all short ones) as raw HTTP/2 POSTs to the live handler URI: oracle = own bitwise CRC-32 + size_of::<Archived<T>>; must-refuse frames must give InvalidView / 400+InvalidPayload with the handler counter unchanged, panics and dropped connections are violations. Small scalar messages (u16, bool, three bytes, optional byte, byte + u16: archived alignment 1-2, sizes not multiples of 4) round-trip through DataView and over the wire. Large frames (27 Blob frames of 4 KiB..300 KiB, sizes around 4/16/64 KiB block boundaries): every bit of the first 32 and last 96 bytes, one bit per 1 KiB block, 300 random bits, truncations, extensions, same oracle. Client side: every bit of a small reply corrupted in transit (in-memory transport) must surface as InvalidPayload. Non-trivial = mutant the oracle says must be refused / distinct values; distinct by content hash.",
    );
    if std::env::var("MON_PANIC_MSGS").is_err() {
        std::panic::set_hook(Box::new(|_| {}));
    }
    if let Some(path) = &args.replay {
        let r = read_replay(path);
        if r["mode"] == "frame" {
            let hex = r["frame_hex"].as_str().unwrap();
            let frame: Vec<u8> = (0..hex.len() / 2).map(|i| u8::from_str_radix(&hex[2 * i..2 * i + 2], 16).unwrap()).collect();
            let mut out = CaseOut::default();
            match r["type"].as_str().unwrap() {
                "Fixed" => view_path::<Fixed, _>("Fixed", &frame, "replay", false, |_| 0, &mut out),
                "Mixed" => view_path::<Mixed, _>("Mixed", &frame, "replay", false, |_| 0, &mut out),
                "Nested" => view_path::<Nested, _>("Nested", &frame, "replay", false, |_| 0, &mut out),
                "Blob" => view_path::<Blob, _>("Blob", &frame, "replay", false, |_| 0, &mut out),
                "FailWith" => view_path::<FailWith, _>("FailWith", &frame, "replay", false, |_| 0, &mut out),
                _ => view_path::<Status, _>("Status", &frame, "replay", false, |_| 0, &mut out),
            }
            report.absorb(out);
        } else {
            eprintln!("round-trip replays re-run the whole seeded sequence");
            let seed = r["seed"].as_u64().unwrap();
            block_on_real(2, c12_roundtrips(seed, r["index"].as_u64().unwrap() + 1, &mut report));
        }
        report.finish(args);
        return;
    }
    let seed = args.seed;
    let n_rt = args.pick(1_500, 20_000);
    let every = args.pick(5, 1) as usize;
    block_on_real(4, c12_roundtrips(seed, n_rt, &mut report));
    let build = if cfg!(debug_assertions) { "debug (rustc runtime checks on)" } else { "release" };
    report.extra.insert("build".into(), json!(build));
    c12_frames_in_children(args, &mut report, every, build);
    block_on_real(2, c12_large_frames(seed, &mut report, every));
    block_on_real(2, c12_small_messages(seed, &mut report));
    // the same for messages carrying reference-counted fields; current-thread runtime, so that consecutive
    // messages are serialized on ONE thread (per-thread serializer state would carry over)
    block_on_real(0, c12_shared_messages(seed, &mut report));
    // raw streaming bodies with request headers
    block_on_real(2, c12_raw_bodies(seed, &mut report));
    block_on_paused(c12_corrupt_replies(&mut report));
    let _ = std::panic::take_hook();
    report.floor("frame_families_completed", C12_FAMILIES as u64);
    report.floor("large_frame_mutants", 10_000);
    report.floor("small_scalar_roundtrips", 200);
    report.floor("shared_pointer_roundtrips", 400);
    report.floor("raw_body_roundtrips", 30);
    report.floor("roundtrips_over_tcp", 300);
    report.floor("frames_that_must_be_refused", 5_000);
    report.floor("raw_posts", 500);
    report.floor("corrupted_replies", 300);
    report.finish(args);
}

#[allow(dead_code)]
pub fn unused(_: BTreeMap<u8, u8>) {}

// ---------------------------------------------------------------------------
// C14 complement: the production connector (hyper over real loopback TCP),
// fault free, heavily multiplexed: no swap, exactly once.
// ---------------------------------------------------------------------------

#[repr(C)]
#[derive(Serialize, Deserialize, Archive, PartialEq, Debug, Clone)]
#[archive(check_bytes)]
pub struct Tagged {
    pub id: u64,
    pub delay_us: u32,
    pub len: u32,
    /// the handler answers with Err(Status::internal(tag_error_message(id, len))) instead of a reply
    pub fail: bool,
}

#[repr(C)]
#[derive(Serialize, Deserialize, Archive, PartialEq, Debug, Clone)]
#[archive(check_bytes)]
pub struct TaggedReply {
    pub id: u64,
    pub payload: Vec<u8>,
}

pub struct TagSvc {
    calls: Arc<Mutex<HashMap<u64, u32>>>,
}

impl RpcService for TagSvc {
    fn register_handlers(r: &mut ServiceRegistry<Self>) {
        r.add_handler::<Tagged>();
    }
}

fn tag_error_message(id: u64, len: u32) -> String {
    (0..len).map(|i| (b'a' + ((id as u32).wrapping_mul(31).wrapping_add(i) % 26) as u8) as char).collect()
}

fn tag_payload(id: u64, len: u32) -> Vec<u8> {
    (0..len).map(|i| (id as u32).wrapping_mul(2_654_435_761).wrapping_add(i) as u8).collect()
}

#[async_trait]
impl Handler<Tagged> for TagSvc {
    type Reply = TaggedReply;
    async fn on_message(&self, m: Request<Tagged>) -> Result<TaggedReply, Status> {
        let (id, d, l) = (m.id.value(), m.delay_us.value(), m.len.value());
        *self.calls.lock().entry(id).or_insert(0) += 1;
        if d > 0 {
            tokio::time::sleep(Duration::from_micros(d as u64)).await;
        }
        if m.fail {
            return Err(Status::internal(tag_error_message(id, l)));
        }
        Ok(TaggedReply { id, payload: tag_payload(id, l) })
    }
}

pub fn c14_tcp(args: &Args) {
    let mut report = Report::new(
        args,
        "E3-wire",
        "complement to the turmoil simulations on the production connector: one real Server on loopback, several Channels, hundreds of concurrent requests multiplexed per HTTP/2 connection (unique ids, handler latency 0-3 ms so replies complete out of order, reply sizes 0 B..64 KiB), no faults: every reply carries the id and the payload computed for that very request, the handler ran exactly once per id. Non-trivial: every batch of concurrent requests; distinct = distinct batches.",
    );
    let seed = args.seed;
    let batches = args.pick(60, 2_000);
    let outs = block_on_real(8, async move {
        let mut outs = Vec::new();
        let addr = free_tcp_addr();
        let server = match Server::listen(addr).await {
            Ok(s) => s,
            Err(e) => {
                let mut o = CaseOut::default();
                o.inconclusive = Some(format!("cannot listen: {e}"));
                return vec![o];
            },
        };
        let calls: Arc<Mutex<HashMap<u64, u32>>> = Default::default();
        server.add_service(TagSvc { calls: calls.clone() });
        let channels: Vec<Channel> = (0..3).map(|_| Channel::connect(addr)).collect();
        let mut next_id = 1u64;
        for b in 0..batches {
            let mut rng = rng_for(seed, 0xC14_7C9, b);
            let n = rng.gen_range(50..400);
            let mut hs = Vec::new();
            let first = next_id;
            for _ in 0..n {
                let id = next_id;
                next_id += 1;
                let client = RpcClient::<TagSvc>::new(channels[rng.gen_range(0..channels.len())].clone());
                let (d, l) = (rng.gen_range(0..3_000u32), *[0u32, 1, 16, 100, 4_096, 65_536].choose(&mut rng).unwrap());
                hs.push(tokio::spawn(async move {
                    let r = if id % 2 == 1 { client.send_owned(Tagged { id, delay_us: d, len: l, fail: false }).await } else { client.send(&Tagged { id, delay_us: d, len: l, fail: false }).await };
                    (id, l, r.map(|v| (v.id.value(), v.payload.as_slice() == tag_payload(id, l).as_slice())).map_err(|e| format!("{:?}", e.code)))
                }));
            }
            let mut out = CaseOut::default();
            out.nontrivial = Some(hash_of(&("tcp-batch", b, n)));
            for h in hs {
                match h.await {
                    Ok((id, l, Ok((rid, same)))) => {
                        out.count("replies_checked", 1);
                        if rid != id {
                            out.violate("C14:reply-of-another-request:real-tcp", json!({"request": id, "reply_id": rid, "batch": b}));
                        } else if !same {
                            out.violate("C14:reply-payload-differs-from-what-the-handler-computed:real-tcp", json!({"request": id, "len": l, "batch": b}));
                        }
                    },
                    Ok((id, _, Err(code))) => out.violate("C14:fault-free-request-failed:real-tcp", json!({"request": id, "code": code})),
                    Err(e) => out.inconclusive = Some(format!("task failed: {e}")),
                }
            }
            let c = calls.lock();
            for id in first..next_id {
                match c.get(&id).copied().unwrap_or(0) {
                    1 => {},
                    k => out.violate(if k == 0 { "C14:acknowledged-request-never-executed:real-tcp" } else { "C14:request-executed-more-than-once:real-tcp" }, json!({"request": id, "handler_invocations": k})),
                }
            }
            drop(c);
            out.count("concurrent_batches", 1);
            if b == 0 {
                out.sample = Some(json!({"batch": 0, "concurrent_requests": n, "channels": 3}));
            }
            if !out.violations.is_empty() {
                out.replay = Some(json!({"seed": seed, "batch": b}));
            }
            outs.push(out);
        }
        server.shutdown();
        outs
    });
    for o in outs {
        report.absorb(o);
    }
    report.floor("replies_checked", 5_000);
    report.finish(args);
}

// ---------------------------------------------------------------------------
// C14 on real TCP with faults: a forwarder between the clients and the server
// cuts (FIN or RST) or stalls connections at seeded moments, also while a
// handler is running, so that replies are lost after the request was executed.
// ---------------------------------------------------------------------------

struct ProxyCtl {
    /// relays of the live connections (aborting one drops both of its sockets)
    relays: Mutex<Vec<tokio::task::AbortHandle>>,
    /// while set nothing is forwarded in either direction
    hold: std::sync::atomic::AtomicBool,
    /// sockets are closed with RST (linger 0) instead of FIN
    rst: std::sync::atomic::AtomicBool,
    accepted: std::sync::atomic::AtomicU64,
    /// >= 0: forwarding stalls by itself once that many more bytes have travelled towards the clients
    /// (i.e. in the middle of the replies); the nemesis releases it
    stall_after_reply_bytes: std::sync::atomic::AtomicI64,
    self_stalls: std::sync::atomic::AtomicU64,
}

async fn pump(mut from: tokio::net::tcp::OwnedReadHalf, mut to: tokio::net::tcp::OwnedWriteHalf, ctl: Arc<ProxyCtl>, towards_client: bool) {
    use std::sync::atomic::Ordering::SeqCst;
    use tokio::io::{AsyncReadExt, AsyncWriteExt};
    let mut buf = vec![0u8; 4 << 10];
    loop {
        let n = match from.read(&mut buf).await {
            Ok(0) | Err(_) => break,
            Ok(n) => n,
        };
        if towards_client && ctl.stall_after_reply_bytes.load(SeqCst) >= 0 {
            let left = ctl.stall_after_reply_bytes.fetch_sub(n as i64, SeqCst) - n as i64;
            if left < 0 {
                ctl.stall_after_reply_bytes.store(-1, SeqCst);
                ctl.self_stalls.fetch_add(1, SeqCst);
                ctl.hold.store(true, SeqCst);
            }
        }
        while ctl.hold.load(SeqCst) {
            tokio::time::sleep(Duration::from_millis(1)).await;
        }
        if to.write_all(&buf[..n]).await.is_err() {
            break;
        }
    }
    let _ = to.shutdown().await;
}

async fn run_proxy(listener: tokio::net::TcpListener, upstream: SocketAddr, ctl: Arc<ProxyCtl>) {
    use std::sync::atomic::Ordering::SeqCst;
    loop {
        let Ok((down, _)) = listener.accept().await else { return };
        ctl.accepted.fetch_add(1, SeqCst);
        let ctl2 = ctl.clone();
        let relay = tokio::spawn(async move {
            let Ok(up) = tokio::net::TcpStream::connect(upstream).await else { return };
            let _ = down.set_nodelay(true);
            let _ = up.set_nodelay(true);
            if ctl2.rst.load(SeqCst) {
                let _ = down.set_linger(Some(Duration::ZERO));
                let _ = up.set_linger(Some(Duration::ZERO));
            }
            let (dr, dw) = down.into_split();
            let (ur, uw) = up.into_split();
            // both directions inside this one task: aborting it drops all four halves at once
            tokio::join!(pump(dr, uw, ctl2.clone(), false), pump(ur, dw, ctl2.clone(), true));
        });
        let mut g = ctl.relays.lock();
        g.retain(|h| !h.is_finished());
        g.push(relay.abort_handle());
    }
}

pub fn c14_tcp_faults(args: &Args) {
    use std::sync::atomic::Ordering::SeqCst;
    let mut report = Report::new(
        args,
        "E3-wire-faults",
        "the production connector under connection faults: a real Server on loopback behind a TCP forwarder owned by the monitor; clients (two Channels, clones of a client with a 250 ms timeout) issue batches of 4..40 concurrent requests with unique ids (handler latency 0-25 ms, replies 0 B..64 KiB; one request in five is answered with a handler error whose message is 0 B..200 kB long and must arrive as that very error) while a seeded nemesis cuts every live connection (FIN or RST) 0-30 ms into the batch, or stalls forwarding for 20-600 ms, or does nothing. Per request: Ok => the reply carries this request's id and the payload the handler computed for it and the handler ran exactly once; Err => the code is ConnectionError or Timeout; in every case the handler ran AT MOST once (no hidden re-send of a request whose reply was lost); a call that takes > 5 s although the timeout is 250 ms is a missed timeout (generous bound, real time). Observed: requests executed whose reply was lost (error returned although the handler ran). Non-trivial: batches in which the nemesis acted; distinct = distinct (batch, action) pairs.",
    );
    let seed = args.seed;
    let batches = args.pick(260, 12_000);
    let budget = Duration::from_secs(args.pick(150, 1_800));
    let outs = block_on_real(8, async move {
        let mut outs = Vec::new();
        let addr = free_tcp_addr();
        let server = match Server::listen(addr).await {
            Ok(s) => s,
            Err(e) => {
                let mut o = CaseOut::default();
                o.inconclusive = Some(format!("cannot listen: {e}"));
                return vec![o];
            },
        };
        let calls: Arc<Mutex<HashMap<u64, u32>>> = Default::default();
        server.add_service(TagSvc { calls: calls.clone() });
        let listener = match tokio::net::TcpListener::bind("127.0.0.1:0").await {
            Ok(l) => l,
            Err(e) => {
                let mut o = CaseOut::default();
                o.inconclusive = Some(format!("cannot bind the forwarder: {e}"));
                return vec![o];
            },
        };
        let paddr = listener.local_addr().unwrap();
        let ctl = Arc::new(ProxyCtl {
            relays: Mutex::new(Vec::new()),
            hold: Default::default(),
            rst: Default::default(),
            accepted: Default::default(),
            stall_after_reply_bytes: std::sync::atomic::AtomicI64::new(-1),
            self_stalls: Default::default(),
        });
        // scheduling lag of this very process: a ticker that should wake every 5 ms
        let lag_ms = Arc::new(AtomicU64::new(0));
        let lag2 = lag_ms.clone();
        let ticker = tokio::spawn(async move {
            loop {
                let t = std::time::Instant::now();
                tokio::time::sleep(Duration::from_millis(5)).await;
                lag2.fetch_max(t.elapsed().as_millis() as u64, SeqCst);
            }
        });
        let proxy = tokio::spawn(run_proxy(listener, addr, ctl.clone()));
        let channels: Vec<Channel> = (0..2).map(|_| Channel::connect(paddr)).collect();
        let timeout = Duration::from_millis(250);
        let mut next_id = 1u64;
        let mut prev_action = 0u8;
        let started = std::time::Instant::now();
        for b in 0..batches {
            if started.elapsed() > budget {
                break;
            }
            let mut rng = rng_for(seed, 0xC14_FA17, b);
            let n = rng.gen_range(4..40);
            // 0 none, 1 cut with FIN, 2 cut with RST, 3 stall shorter than the timeout, 4 stall longer than the timeout,
            // 5 stall (1.5 s) that begins in the middle of the replies: after 1 B..300 KiB have gone back to the clients,
            // 6 the same with a 1 s timeout and handlers that take 700..900 ms, so that the response head arrives LATE
            //   but in time and the stall then falls into the body: the whole exchange is still bounded by ONE timeout
            let action = *[0u8, 0, 1, 1, 1, 2, 2, 2, 3, 4, 5, 5, 6].choose(&mut rng).unwrap();
            let timeout = if action == 6 { Duration::from_millis(1_000) } else { timeout };
            let at = Duration::from_micros(rng.gen_range(0..30_000));
            let stall = Duration::from_millis(match action {
                3 => rng.gen_range(20..150),
                5 => 1_500,
                6 => 1_800,
                _ => rng.gen_range(300..600),
            });
            ctl.rst.store(action == 2, SeqCst);
            lag_ms.store(0, SeqCst);
            if action == 5 || action == 6 {
                ctl.stall_after_reply_bytes.store(rng.gen_range(1..300_000), SeqCst);
            }
            let mut hs = Vec::new();
            let first = next_id;
            for _ in 0..n {
                let id = next_id;
                next_id += 1;
                let mut configured = RpcClient::<TagSvc>::new(channels[rng.gen_range(0..channels.len())].clone());
                configured.set_timeout(timeout);
                let client = configured.clone();
                let (d, mut l) = (rng.gen_range(0..25_000u32), *[0u32, 1, 16, 100, 4_096, 65_536].choose(&mut rng).unwrap());
                if action == 5 || action == 6 {
                    l = *[65_536u32, 200_000, 400_000].choose(&mut rng).unwrap();
                }
                let d = if action == 6 { rng.gen_range(700_000..900_000u32) } else { d };
                let jitter = Duration::from_micros(rng.gen_range(0..20_000));
                // one request in five is answered with a handler ERROR carrying a message of that length
                let fail = rng.gen_bool(0.2);
                if fail && l < 4_096 && rng.gen_bool(0.5) {
                    l = 200_000;
                }
                hs.push(tokio::spawn(async move {
                    tokio::time::sleep(jitter).await;
                    let t0 = std::time::Instant::now();
                    // (half of the requests go through the by-value API)
                    let r = if id % 2 == 1 { client.send_owned(Tagged { id, delay_us: d, len: l, fail }).await } else { client.send(&Tagged { id, delay_us: d, len: l, fail }).await };
                    // a handler error must arrive as that very error (code + message); anything else the
                    // client reports in its place has to be a connection or timeout error
                    let r = match r {
                        Err(e) if fail && e.code == ErrorCode::InternalError && e.message == tag_error_message(id, l) => Ok((id, true)),
                        other => other.map(|v| (v.id.value(), v.payload.as_slice() == tag_payload(id, l).as_slice())).map_err(|e| e.code),
                    };
                    (id, l, t0.elapsed(), r)
                }));
            }
            let ctl2 = ctl.clone();
            let nemesis = tokio::spawn(async move {
                tokio::time::sleep(at).await;
                match action {
                    1 | 2 => {
                        let hs: Vec<_> = ctl2.relays.lock().drain(..).collect();
                        let n = hs.iter().filter(|h| !h.is_finished()).count();
                        for h in hs {
                            h.abort();
                        }
                        n
                    },
                    3 | 4 => {
                        ctl2.hold.store(true, SeqCst);
                        tokio::time::sleep(stall).await;
                        ctl2.hold.store(false, SeqCst);
                        1
                    },
                    5 | 6 => {
                        // the forwarder stalls by itself in mid-reply; release it after the stall time
                        tokio::time::sleep(stall).await;
                        let hit = ctl2.stall_after_reply_bytes.swap(-1, SeqCst) < 0;
                        ctl2.hold.store(false, SeqCst);
                        hit as usize
                    },
                    _ => 0,
                }
            });
            let mut out = CaseOut::default();
            let mut results = Vec::new();
            for h in hs {
                match h.await {
                    Ok(r) => results.push(r),
                    Err(e) => out.inconclusive = Some(format!("task failed: {e}")),
                }
            }
            let acted = nemesis.await.unwrap_or(0);
            if acted > 0 {
                out.nontrivial = Some(hash_of(&("tcp-fault-batch", b, action)));
                out.count(match action { 1 => "cuts_fin", 2 => "cuts_rst", 3 => "short_stalls", 4 => "long_stalls", 5 => "stalls_in_mid_reply", _ => "stalls_in_mid_reply_after_a_late_head" }, 1);
            }
            // handlers of cut requests may still be running: let them finish before counting invocations
            tokio::time::sleep(Duration::from_millis(30)).await;
            let c = calls.lock();
            for (id, l, took, r) in results {
                let ran = c.get(&id).copied().unwrap_or(0);
                out.count("requests_checked", 1);
                if id % 2 == 1 {
                    out.count("requests_sent_by_value_(send_owned)", 1);
                }
                let outcome = format!("{r:?}");
                if ran > 1 {
                    out.violate("C14:request-executed-more-than-once:real-tcp", json!({"request": id, "handler_invocations": ran, "outcome": outcome, "batch": b, "action": action}));
                }
                match r {
                    Ok((rid, same)) => {
                        out.count("replies_checked", 1);
                        if rid != id {
                            out.violate("C14:reply-of-another-request:real-tcp", json!({"request": id, "reply_id": rid, "batch": b}));
                        } else if !same {
                            out.violate("C14:reply-payload-differs-from-what-the-handler-computed:real-tcp", json!({"request": id, "len": l, "batch": b}));
                        }
                        if ran == 0 {
                            out.violate("C14:answered-request-never-executed:real-tcp", json!({"request": id, "batch": b}));
                        }
                    },
                    Err(code) => {
                        out.count("errors_returned", 1);
                        if ran == 1 {
                            out.count("executed_but_reply_lost", 1);
                        }
                        match &code {
                            ErrorCode::ConnectionError => out.count("connection_errors", 1),
                            ErrorCode::Timeout => out.count("timeouts", 1),
                            other => out.violate(
                                format!("C14:transport-fault-reported-as-{other:?}:real-tcp"),
                                json!({"request": id, "batch": b, "action": action, "handler_invocations": ran}),
                            ),
                        }
                        // a failure in a batch without a fault is judged only if the batch before it had none
                        // either (a connection cut a moment ago may still sit in the client's pool) and only if
                        // it is not a timeout (250 ms of real time can be lost to scheduling on a loaded machine)
                        if action == 0 {
                            if prev_action == 0 && code != ErrorCode::Timeout {
                                out.violate("C14:fault-free-request-failed:real-tcp", json!({"request": id, "code": format!("{code:?}"), "batch": b}));
                            } else {
                                out.count("failures_in_fault_free_batches_not_judged", 1);
                            }
                        }
                    },
                }
                // real time: a bound of timeout + 750 ms, and only when this process' own scheduling lag
                // (5 ms ticker) stayed under 150 ms during the batch; otherwise nothing is concluded
                // (with the 1 s timeout of action 6 the margin is 450 ms: a clock restarted at the response head
                // would answer after 700..900 ms + 1 s)
                if took > timeout + Duration::from_millis(if action == 6 { 450 } else { 750 }) {
                    let lag = lag_ms.load(SeqCst);
                    if lag < 150 {
                        out.violate(
                            if action == 5 || action == 6 { "C14:answer-later-than-the-configured-timeout:stall-in-mid-reply:real-tcp" } else { "C14:answer-later-than-the-configured-timeout:real-tcp" },
                            json!({"request": id, "took_ms": took.as_millis() as u64, "timeout_ms": timeout.as_millis() as u64, "batch": b, "action": action, "outcome": outcome, "reply_len": l, "max_scheduling_lag_ms": lag}),
                        );
                    } else {
                        out.count("late_answers_not_judged_because_of_scheduling_lag", 1);
                    }
                }
            }
            drop(c);
            let _ = first;
            prev_action = action;
            if b == 0 {
                out.sample = Some(json!({"batch": 0, "concurrent_requests": n, "action": action, "at_us": at.as_micros() as u64}));
            }
            if !out.violations.is_empty() {
                out.replay = Some(json!({"seed": seed, "batch": b}));
            }
            outs.push(out);
        }
        let mut last = CaseOut::default();
        last.count("connections_accepted_by_forwarder", ctl.accepted.load(SeqCst));
        ticker.abort();
        outs.push(last);
        proxy.abort();
        server.shutdown();
        outs
    });
    for o in outs {
        report.absorb(o);
    }
    report.floor("requests_checked", 2_000);
    report.floor("executed_but_reply_lost", 50);
    report.floor("timeouts", 20);
    report.floor("connection_errors", 20);
    report.floor("stalls_in_mid_reply", 8);
    report.floor("stalls_in_mid_reply_after_a_late_head", 5);
    report.finish(args);
}
