//! Engine E1 (actor level): real KeyspaceGroup + keyspace actors + real
//! ConsistencyService / ReplicationService over the in-memory transport.
//! C02 (set == store after every request), C07 (restart rebuilds what storage
//! holds), C18 (one state per keyspace), C19 (peer receives the state unchanged).
use std::collections::{BTreeMap, BTreeSet};
use std::marker::PhantomData;
use std::net::SocketAddr;
use std::sync::atomic::Ordering;
use std::sync::Arc;

use parking_lot::Mutex;
use std::time::Duration;

use datacake_crdt::{HLCTimestamp, Key, OrSWotSet};
use datacake_eventual_consistency::test_utils::MemStore;
use datacake_eventual_consistency::verif as ecv;
use datacake_eventual_consistency::{Document, DocumentMetadata, Storage};
use datacake_node::{Clock, RpcNetwork};
use datacake_rpc::{Channel, Server};
use rand::prelude::*;
use serde_json::{json, Value};
use smallvec::SmallVec;

use crate::common::*;
use crate::crdt::{decision_probe, enumerate, listing_json, probe_stamps, ts, ts_json, Listing};
use crate::hstore::{Backing, Ctl, HStore};

pub type Mailbox<S> = puppet::ActorMailbox<ecv::KeyspaceActor<S>>;

pub fn decode_set(bytes: &[u8]) -> Result<OrSWotSet<2>, String> {
    let mut al = rkyv::AlignedVec::with_capacity(bytes.len().max(1));
    al.extend_from_slice(bytes);
    OrSWotSet::<2>::from_bytes(&al).map_err(|e| e.to_string())
}

/// Serialized set of a keyspace actor (a mailbox message: ordered after every
/// request that completed before).
pub async fn set_of<S: Storage>(ks: &Mailbox<S>) -> Result<OrSWotSet<2>, String> {
    let bytes = ks.send(ecv::Serialize).await.map_err(|e| e.to_string())?;
    decode_set(&bytes)
}

pub async fn store_listing<S: Storage>(st: &S, keyspace: &str) -> Result<Listing, String> {
    let meta: Vec<_> = st.iter_metadata(keyspace).await.map_err(|e| e.to_string())?.collect();
    let mut live: Vec<_> = meta.iter().filter(|m| !m.2).map(|m| (m.0, m.1)).collect();
    let mut dead: Vec<_> = meta.iter().filter(|m| m.2).map(|m| (m.0, m.1)).collect();
    live.sort();
    dead.sort();
    Ok((live, dead))
}

/// The set/store agreement probe (C02, C07, C18, C01).
pub async fn agreement<S: Storage>(ks: &Mailbox<S>, st: &S, keyspace: &str) -> Result<Option<Value>, String> {
    let set = enumerate(&set_of(ks).await?);
    let store = store_listing(st, keyspace).await?;
    if set == store {
        Ok(None)
    } else {
        Ok(Some(json!({"set": listing_json(&set), "store": listing_json(&store)})))
    }
}

fn classify_disagreement(set: &Listing, store: &Listing) -> &'static str {
    let set_ids: BTreeMap<u64, (HLCTimestamp, bool)> = set.0.iter().map(|e| (e.0, (e.1, false))).chain(set.1.iter().map(|e| (e.0, (e.1, true)))).collect();
    let store_ids: BTreeMap<u64, (HLCTimestamp, bool)> = store.0.iter().map(|e| (e.0, (e.1, false))).chain(store.1.iter().map(|e| (e.0, (e.1, true)))).collect();
    for (id, s) in &store_ids {
        match set_ids.get(id) {
            None => return "store-holds-entry-the-set-lacks",
            Some(x) if x.0 < s.0 => return "store-newer-than-set",
            Some(x) if x.0 > s.0 => return "set-newer-than-store",
            Some(x) if x.1 != s.1 => return "same-stamp-different-kind",
            _ => {},
        }
    }
    if set_ids.keys().any(|k| !store_ids.contains_key(k)) {
        return "set-holds-entry-the-store-lacks";
    }
    "other"
}

#[derive(Clone, Debug)]
pub enum Req {
    Set { src: usize, key: Key, ts: HLCTimestamp },
    Del { src: usize, key: Key, ts: HLCTimestamp },
    MultiSet { src: usize, docs: Vec<(Key, HLCTimestamp)> },
    MultiDel { src: usize, docs: Vec<(Key, HLCTimestamp)> },
    Purge,
    /// through the real ConsistencyService over the in-memory transport
    RpcPut { key: Key, ts: HLCTimestamp },
    RpcMultiPut { docs: Vec<(Key, HLCTimestamp)> },
    RpcRemove { key: Key, ts: HLCTimestamp },
    RpcMultiRemove { docs: Vec<(Key, HLCTimestamp)> },
    RpcBatch { puts: Vec<(Key, HLCTimestamp)>, dels: Vec<(Key, HLCTimestamp)> },
}

fn pairs_json(v: &[(Key, HLCTimestamp)]) -> Value {
    json!(v.iter().map(|(k, t)| json!([k, ts_json(*t)])).collect::<Vec<_>>())
}

pub fn req_json(r: &Req) -> Value {
    match r {
        Req::Set { src, key, ts } => json!({"set": [src, key, ts_json(*ts)]}),
        Req::Del { src, key, ts } => json!({"del": [src, key, ts_json(*ts)]}),
        Req::MultiSet { src, docs } => json!({"multi_set": [src, pairs_json(docs)]}),
        Req::MultiDel { src, docs } => json!({"multi_del": [src, pairs_json(docs)]}),
        Req::Purge => json!("purge"),
        Req::RpcPut { key, ts } => json!({"rpc_put": [key, ts_json(*ts)]}),
        Req::RpcMultiPut { docs } => json!({"rpc_multi_put": pairs_json(docs)}),
        Req::RpcRemove { key, ts } => json!({"rpc_remove": [key, ts_json(*ts)]}),
        Req::RpcMultiRemove { docs } => json!({"rpc_multi_remove": pairs_json(docs)}),
        Req::RpcBatch { puts, dels } => json!({"rpc_batch": {"puts": pairs_json(puts), "dels": pairs_json(dels)}}),
    }
}

fn doc(key: Key, ts: HLCTimestamp) -> Document {
    // payload derived from the stamp so that bytes identify the write
    Document::new(key, ts, ts.as_u64().to_le_bytes().to_vec())
}

pub struct ActorNode<I: Backing> {
    pub store: Arc<HStore<I>>,
    pub ctl: Arc<Ctl>,
    pub group: ecv::KeyspaceGroup<HStore<I>>,
    pub clock: Clock,
    pub addr: SocketAddr,
    pub server: Server,
    pub client: ecv::ConsistencyClient<HStore<I>>,
}

impl<I: Backing> ActorNode<I> {
    pub async fn start(inner: Arc<I>, ctl: Arc<Ctl>, addr: SocketAddr, load: bool) -> Result<Self, String> {
        let store = Arc::new(HStore::new(inner, ctl.clone()));
        let clock = Clock::new(ctl.node);
        let group = ecv::KeyspaceGroup::new(store.clone(), clock.clone()).await;
        if load {
            group.load_states_from_storage().await.map_err(|e| e.to_string())?;
        }
        let server = Server::verif_in_memory(addr);
        server.add_service(ecv::ConsistencyService::new(group.clone(), RpcNetwork::default()));
        server.add_service(ecv::ReplicationService::new(group.clone()));
        // the client side uses another node's clock (a remote peer)
        let client = ecv::ConsistencyClient::new(Clock::new(ctl.node.wrapping_add(100)), Channel::connect(addr));
        Ok(Self { store, ctl, group, clock, addr, server, client })
    }

    pub fn stop(self) {
        datacake_rpc::verif::unregister(self.addr);
    }

    /// Sends one request; Ok(true) = acknowledged, Ok(false) = the request reported an error.
    pub async fn send(&mut self, keyspace: &str, req: &Req) -> bool {
        let mk_docs = |v: &[(Key, HLCTimestamp)]| -> SmallVec<[Document; 4]> { v.iter().map(|(k, t)| doc(*k, *t)).collect() };
        let mk_meta = |v: &[(Key, HLCTimestamp)]| -> SmallVec<[DocumentMetadata; 4]> { v.iter().map(|(k, t)| DocumentMetadata::new(*k, *t)).collect() };
        match req {
            Req::Set { src, key, ts } => {
                let ks = self.group.get_or_create_keyspace(keyspace).await;
                ks.send(ecv::Set { source: *src, doc: doc(*key, *ts), ctx: None, _marker: PhantomData }).await.is_ok()
            },
            Req::Del { src, key, ts } => {
                let ks = self.group.get_or_create_keyspace(keyspace).await;
                ks.send(ecv::Del { source: *src, doc: DocumentMetadata::new(*key, *ts), _marker: PhantomData }).await.is_ok()
            },
            Req::MultiSet { src, docs } => {
                let ks = self.group.get_or_create_keyspace(keyspace).await;
                ks.send(ecv::MultiSet { source: *src, docs: mk_docs(docs), ctx: None, _marker: PhantomData }).await.is_ok()
            },
            Req::MultiDel { src, docs } => {
                let ks = self.group.get_or_create_keyspace(keyspace).await;
                ks.send(ecv::MultiDel { source: *src, docs: mk_meta(docs), _marker: PhantomData }).await.is_ok()
            },
            Req::Purge => {
                let ks = self.group.get_or_create_keyspace(keyspace).await;
                ks.send(ecv::PurgeDeletes(PhantomData)).await.is_ok()
            },
            Req::RpcPut { key, ts } => self.client.put(keyspace, doc(*key, *ts), 77, SocketAddr::from(([10, 77, 0, 1], 1))).await.is_ok(),
            Req::RpcMultiPut { docs } => self.client.multi_put(keyspace, mk_docs(docs).into_iter(), 77, SocketAddr::from(([10, 77, 0, 1], 1))).await.is_ok(),
            Req::RpcRemove { key, ts } => self.client.del(keyspace, *key, *ts).await.is_ok(),
            Req::RpcMultiRemove { docs } => self.client.multi_del(keyspace, mk_meta(docs)).await.is_ok(),
            Req::RpcBatch { puts, dels } => {
                let timestamp = self.clock.get_time().await;
                let batch = ecv::BatchPayload {
                    timestamp,
                    modified: if puts.is_empty() {
                        SmallVec::new()
                    } else {
                        let mut v = SmallVec::new();
                        v.push(ecv::MultiPutPayload { keyspace: keyspace.to_string(), ctx: None, documents: mk_docs(puts), timestamp });
                        v
                    },
                    removed: if dels.is_empty() {
                        SmallVec::new()
                    } else {
                        let mut v = SmallVec::new();
                        v.push(ecv::MultiRemovePayload { keyspace: keyspace.to_string(), documents: mk_meta(dels), timestamp });
                        v
                    },
                };
                self.client.apply_batch(&batch).await.is_ok()
            },
        }
    }
}

pub struct ReqGen {
    pub rng: StdRng,
    used: BTreeSet<HLCTimestamp>,
    pub keys: u64,
    pub base_ms: u64,
    pub span_ms: u64,
    pub origins: (u8, u8),
    pub allow_dup_ids: bool,
    /// map the small key indices onto extreme u64 ids (backends store ids as signed integers)
    pub extreme_ids: bool,
    /// rotates which of the extreme ids the key indices map to
    pub id_offset: usize,
}

// (the first three are what the small histories use: both sides of the signed boundary)
const EXTREME_IDS: [u64; 16] = [u64::MAX, (1 << 63) + 1, 0, 1 << 63, (1 << 63) - 1, 1 << 31, u64::MAX - 1, 1, 2, 3, 1 << 32, (1 << 32) - 1, 1 << 62, 42, 255, 256];

impl ReqGen {
    pub fn new(rng: StdRng, span_ms: u64, allow_dup_ids: bool) -> Self {
        Self { rng, used: BTreeSet::new(), keys: 3, base_ms: 50_000_000, span_ms, origins: (2, 5), allow_dup_ids, extreme_ids: false, id_offset: 0 }
    }

    pub fn fresh_ts(&mut self) -> HLCTimestamp {
        loop {
            let t = ts(
                self.base_ms + self.rng.gen_range(0..self.span_ms / 4) * 4,
                self.rng.gen_range(0..3),
                self.rng.gen_range(self.origins.0..self.origins.1),
            );
            if self.used.insert(t) {
                return t;
            }
        }
    }

    fn key(&mut self) -> Key {
        let k = self.rng.gen_range(0..self.keys);
        if self.extreme_ids {
            EXTREME_IDS[(k as usize + self.id_offset) % EXTREME_IDS.len()]
        } else {
            k
        }
    }

    fn bulk(&mut self) -> Vec<(Key, HLCTimestamp)> {
        let n = self.rng.gen_range(1..5);
        let mut v: Vec<(Key, HLCTimestamp)> = Vec::new();
        if self.rng.gen_bool(0.5) {
            // the way put_many / del_many build a request: every document carries the SAME stamp
            let t = self.fresh_ts();
            for _ in 0..n {
                let k = self.key();
                if !v.iter().any(|e| e.0 == k) {
                    v.push((k, t));
                }
            }
            return v;
        }
        for _ in 0..n {
            let k = self.key();
            if !self.allow_dup_ids && v.iter().any(|e| e.0 == k) {
                continue;
            }
            let t = self.fresh_ts();
            v.push((k, t));
        }
        v
    }

    pub fn next(&mut self, rpc: bool) -> Req {
        let src = self.rng.gen_range(0..2usize);
        let kind = self.rng.gen_range(0..if rpc { 16 } else { 10 });
        match kind {
            0..=2 => Req::Set { src, key: self.key(), ts: self.fresh_ts() },
            3..=4 => Req::Del { src, key: self.key(), ts: self.fresh_ts() },
            5..=6 => Req::MultiSet { src, docs: self.bulk() },
            7..=8 => Req::MultiDel { src, docs: self.bulk() },
            9 => Req::Purge,
            10 => Req::RpcPut { key: self.key(), ts: self.fresh_ts() },
            11 => Req::RpcMultiPut { docs: self.bulk() },
            12 => Req::RpcRemove { key: self.key(), ts: self.fresh_ts() },
            13 => Req::RpcMultiRemove { docs: self.bulk() },
            _ => {
                let puts = if self.rng.gen_bool(0.7) { self.bulk() } else { vec![] };
                let dels = if self.rng.gen_bool(0.7) { self.bulk() } else { vec![] };
                Req::RpcBatch { puts, dels }
            },
        }
    }
}

fn req_has_dup_ids(r: &Req) -> bool {
    let dup = |v: &[(Key, HLCTimestamp)]| {
        let ids: BTreeSet<_> = v.iter().map(|e| e.0).collect();
        ids.len() != v.len()
    };
    match r {
        Req::MultiSet { docs, .. } | Req::MultiDel { docs, .. } | Req::RpcMultiPut { docs } | Req::RpcMultiRemove { docs } => dup(docs),
        Req::RpcBatch { puts, dels } => dup(puts) || dup(dels),
        _ => false,
    }
}

fn scen_addr(tag: u8, i: u64) -> SocketAddr {
    SocketAddr::from(([10, tag, (i >> 8) as u8, i as u8], 2000 + ((i >> 16) % 60000) as u16))
}

// ---------------------------------------------------------------------------
// C02
// ---------------------------------------------------------------------------

async fn c02_run(reqs: &[(Req, Option<i64>)], addr: SocketAddr, out: &mut CaseOut) {
    let ctl = Ctl::new(1);
    let mut node = match ActorNode::start(Arc::new(MemStore::default()), ctl.clone(), addr, false).await {
        Ok(n) => n,
        Err(e) => {
            out.inconclusive = Some(e);
            return;
        },
    };
    let ksn = "ks";
    let mut changed = 0;
    let mut prev: Option<Listing> = None;
    let mut trace = Vec::new();
    for (step, (req, fault)) in reqs.iter().enumerate() {
        if let Some(f) = fault {
            ctl.fail_after.store(*f, Ordering::SeqCst);
        }
        trace.push(json!({"request": req_json(req), "storage_fault_after_docs": fault}));
        let acked = node.send(ksn, req).await;
        let fired = ctl.fail_after.swap(-1, Ordering::SeqCst) < 0 && fault.is_some();
        out.count("requests_completed", 1);
        if !acked {
            out.count("requests_failed", 1);
        }
        if fired {
            out.count("storage_faults_fired", 1);
        }
        let ks = node.group.get_or_create_keyspace(ksn).await;
        let (set, store) = match (set_of(&ks).await, store_listing(node.store.as_ref(), ksn).await) {
            (Ok(s), Ok(t)) => (enumerate(&s), t),
            (a, b) => {
                out.violate("C02:probe-failed", json!({"set": a.err(), "store": b.err()}));
                break;
            },
        };
        if prev.as_ref() != Some(&store) {
            changed += 1;
        }
        prev = Some(store.clone());
        if set != store {
            let class = classify_disagreement(&set, &store);
            let cause = if req_has_dup_ids(req) {
                "request-names-an-id-twice"
            } else if fired {
                "storage-failure-injected"
            } else {
                "plain-request"
            };
            out.violate(
                format!("C02:set-and-store-disagree:{class}:{cause}"),
                json!({"after_step": step, "acknowledged": acked, "trace": trace, "set": listing_json(&set), "store": listing_json(&store)}),
            );
            break;
        }
    }
    if changed >= 2 {
        out.nontrivial = Some(hash_of(&format!("{:?}", reqs)));
    }
    node.stop();
}

fn c02_random_case(seed: u64, i: u64, mode: u64) -> CaseOut {
    let mut out = CaseOut::default();
    let rng = rng_for(seed, 0xC02 + mode, i);
    // mode 0: plain, 1: storage faults, 2: duplicate ids allowed, 3: faults + duplicates
    let hour_scale = i % 2 == 0;
    let mut g = ReqGen::new(rng, if hour_scale { 30_000_000 } else { 3_000_000 }, mode >= 2);
    let n = g.rng.gen_range(3..16);
    let mut reqs = Vec::new();
    for _ in 0..n {
        let r = g.next(true);
        let fault = if mode % 2 == 1 && g.rng.gen_bool(0.2) { Some(g.rng.gen_range(0..3)) } else { None };
        reqs.push((r, fault));
    }
    block_on_paused(c02_run(&reqs, scen_addr(2, i * 4 + mode), &mut out));
    if !out.violations.is_empty() {
        out.replay = Some(json!({"mode": "random", "seed": seed, "index": i, "gen_mode": mode}));
    }
    if i == 3 {
        out.sample = Some(json!({"requests": reqs.iter().map(|(r, f)| json!({"request": req_json(r), "fault": f})).collect::<Vec<_>>()}));
    }
    out
}

/// Exhaustive small universe: every sequence of <= 3 requests out of
/// {Set, Del} x 2 keys x 4 stamps (2 origins) x 2 sources + purge.
fn c02_exhaustive(report: &mut Report, args: &Args) {
    let b = 50_000_000u64;
    let stamps = [ts(b, 0, 2), ts(b + 4, 0, 3), ts(b + 1_000_000, 0, 2), ts(b + 5_000_000, 1, 3)];
    let mut alphabet: Vec<Req> = vec![Req::Purge];
    for key in 0..2u64 {
        for t in stamps {
            for src in 0..2usize {
                alphabet.push(Req::Set { src, key, ts: t });
                alphabet.push(Req::Del { src, key, ts: t });
            }
        }
    }
    let a = alphabet.len() as u64;
    let n = a * a * a;
    report.extra.insert("exhaustive_alphabet".into(), json!(a));
    run_cases(report, n, args.threads, Duration::from_secs(args.pick(150, 1200)), |i| {
        let seq = [(i / (a * a)) as usize, ((i / a) % a) as usize, (i % a) as usize];
        let mut out = CaseOut::default();
        // requests must carry distinct stamps (the clocks guarantee it)
        let reqs: Vec<(Req, Option<i64>)> = seq.iter().map(|k| (alphabet[*k].clone(), None)).collect();
        let stamps_used: Vec<HLCTimestamp> = reqs.iter().filter_map(|(r, _)| match r { Req::Set { ts, .. } | Req::Del { ts, .. } => Some(*ts), _ => None }).collect();
        let uniq: BTreeSet<_> = stamps_used.iter().collect();
        if uniq.len() != stamps_used.len() {
            out.count("skipped_duplicate_stamp_sequences", 1);
            return out;
        }
        block_on_paused(c02_run(&reqs, scen_addr(3, i), &mut out));
        if !out.violations.is_empty() {
            out.replay = Some(json!({"mode": "exhaustive", "index": i}));
        }
        out.count("exhaustive_sequences", 1);
        out
    });
}

pub fn c02(args: &Args) {
    let mut report = Report::new(
        args,
        "E1-actor",
        "one real keyspace actor (KeyspaceGroup + MemStore behind a fault-injecting wrapper + real ConsistencyService reached through real ConsistencyClient on the in-memory transport). Sequences of 3..15 requests: Set/Del/MultiSet/MultiDel on both sources, PurgeDeletes, and put / multi_put / remove / multi_remove / batch payloads through the service; arbitrary distinct stamps from 3 origins, hour-scale spread in half of the sequences (cut-offs move, purges remove tombstones), 4 generator modes: plain / storage faults (single call fails, bulk call fails after j of n documents, remove_tombstones fails after j keys) / bulk requests may name an id twice / both. After EVERY completed request (acknowledged or failed) the actor's serialized set is listed and compared with iter_metadata: live (id,t) in the set <=> stored document (id,t); tombstone (id,t) <=> stored tombstone (id,t). Plus every sequence of <= 3 requests over {Set,Del} x 2 keys x 4 stamps x 2 sources + purge. Non-trivial = the store changed at least twice; distinct = distinct request sequences.",
    );
    if let Some(path) = &args.replay {
        let r = read_replay(path);
        if r["mode"] == "random" {
            report.absorb(c02_random_case(r["seed"].as_u64().unwrap(), r["index"].as_u64().unwrap(), r["gen_mode"].as_u64().unwrap()));
        } else {
            eprintln!("exhaustive replays: rerun ./check C02 (deterministic)");
        }
        report.finish(args);
        return;
    }
    c02_exhaustive(&mut report, args);
    let seed = args.seed;
    let n = args.pick(100_000, 3_000_000);
    for mode in 0..4u64 {
        run_cases(&mut report, n, args.threads, Duration::from_secs(args.pick(60, 900)), |i| c02_random_case(seed, i, mode));
    }
    report.floor("requests_completed", 100_000);
    report.floor("storage_faults_fired", 1_000);
    report.finish(args);
}

// ---------------------------------------------------------------------------
// C08 at the actor level: a purge racing a re-put on a node with slow storage
// ---------------------------------------------------------------------------

/// A keyspace actor over storage whose writes take d virtual ms (never fail). A document is put and
/// deleted by origin n; both sources then see n more than a forgiveness period past the delete, so the
/// tombstone is purgeable. A purge request and - g ms later - a NEWER put of the same id (and puts of
/// other ids) are sent without waiting for each other. Afterwards: every live id of the LWW model is
/// live in storage with its bytes (purging removes only tombstones), set == store.
async fn c08_actor_case(seed: u64, i: u64) -> CaseOut {
    let mut out = CaseOut::default();
    let mut rng = rng_for(seed, 0xC08_AC7, i);
    let ctl = Ctl::new(1);
    let addr = scen_addr(48, i);
    let node = match ActorNode::start(Arc::new(MemStore::default()), ctl.clone(), addr, false).await {
        Ok(n) => n,
        Err(e) => {
            out.inconclusive = Some(e);
            return out;
        },
    };
    let ksn = "purge-race";
    let ks = node.group.get_or_create_keyspace(ksn).await;
    let hour = 3_600_000u64;
    let t0 = 60_000_000u64 + rng.gen_range(0..1_000u64) * 4;
    let n_ids = rng.gen_range(1..=3u64);
    let origin = 7u8;
    // put + delete of every id by one origin, then that origin is seen well past the deletes on both sources
    for id in 0..n_ids {
        let _ = ks.send(ecv::Set { source: 0, doc: doc(id, ts(t0 + id * 8, 0, origin)), ctx: None, _marker: PhantomData }).await;
        let _ = ks.send(ecv::Del { source: rng.gen_range(0..2), doc: DocumentMetadata::new(id, ts(t0 + 1_000 + id * 8, 0, origin)), _marker: PhantomData }).await;
    }
    for src in 0..2 {
        let _ = ks.send(ecv::Set { source: src, doc: doc(100 + src as u64, ts(t0 + 2 * hour + src as u64 * 4, 0, origin)), ctx: None, _marker: PhantomData }).await;
    }
    let before = store_listing(node.store.as_ref(), ksn).await.map(|l| l.1.len()).unwrap_or(0);
    let d = *[1i64, 3, 10, 40].choose(&mut rng).unwrap();
    ctl.slow_ms.store(d, Ordering::SeqCst);
    // the purge and the re-puts travel independently
    let purge = {
        let ks = ks.clone();
        tokio::spawn(async move { ks.send(ecv::PurgeDeletes(PhantomData)).await.is_ok() })
    };
    let mut reputs = Vec::new();
    let mut expect_live: BTreeMap<Key, HLCTimestamp> = BTreeMap::new();
    for id in 0..n_ids {
        if rng.gen_bool(0.7) {
            let gap = rng.gen_range(0..=(2 * d) as u64);
            let stamp = ts(t0 + 3 * hour + id * 4, 0, rng.gen_range(2..6));
            expect_live.insert(id, stamp);
            let ks = ks.clone();
            let src = rng.gen_range(0..2);
            reputs.push(tokio::spawn(async move {
                tokio::time::sleep(Duration::from_millis(gap)).await;
                ks.send(ecv::Set { source: src, doc: doc(id, stamp), ctx: None, _marker: PhantomData }).await.is_ok()
            }));
        }
    }
    let _ = purge.await;
    for r in reputs {
        let _ = r.await;
    }
    // whatever the purge still has in flight gets time to finish
    tokio::time::sleep(Duration::from_millis(20 * d as u64 + 50)).await;
    ctl.slow_ms.store(0, Ordering::SeqCst);
    let (live, dead) = match store_listing(node.store.as_ref(), ksn).await {
        Ok(l) => l,
        Err(e) => {
            out.inconclusive = Some(e);
            node.stop();
            return out;
        },
    };
    out.count("purges_racing_a_reput", 1);
    out.count("tombstones_purged_by_the_racing_purge", before.saturating_sub(dead.len()) as u64);
    out.count("reputs_of_purged_ids", expect_live.len() as u64);
    out.nontrivial = Some(hash_of(&("purge-race", i)));
    let desc = |extra: Value| json!({"storage_write_takes_ms": d, "ids": n_ids, "re_put": expect_live.iter().map(|(k, t)| json!([k, ts_json(*t)])).collect::<Vec<_>>(),
        "store_live": live.iter().map(|e| json!([e.0, ts_json(e.1)])).collect::<Vec<_>>(), "store_tombstones": dead.iter().map(|e| json!([e.0, ts_json(e.1)])).collect::<Vec<_>>(), "observed": extra});
    for (id, stamp) in &expect_live {
        if !live.contains(&(*id, *stamp)) {
            out.violate("C08:live-document-removed-from-storage-by-a-purge", desc(json!({"id": id, "expected_live_at": ts_json(*stamp)})));
            break;
        }
        match node.store.get(ksn, *id).await {
            Ok(Some(dv)) if dv.last_updated() == *stamp => {},
            other => {
                out.violate("C08:live-document-not-readable-after-a-purge", desc(json!({"id": id, "get": format!("{:?}", other.map(|o| o.map(|d| d.last_updated())))})));
                break;
            },
        }
    }
    if let Ok(Some(diff)) = agreement(&ks, node.store.as_ref(), ksn).await {
        out.violate("C08:set-and-store-disagree-after-a-purge-raced-a-put", desc(diff));
    }
    if !out.violations.is_empty() {
        out.replay = Some(json!({"mode": "purge-race", "seed": seed, "index": i}));
    }
    node.stop();
    out
}

pub fn c08_actor(args: &Args) {
    let mut report = Report::new(
        args,
        "E1-actor",
        "a real keyspace actor over storage whose writes take 1/3/10/40 virtual ms (never fail): 1-3 documents are put and deleted by one origin, both sources then see that origin more than a forgiveness period past the deletes (tombstones purgeable); a purge request and, 0..2d ms later, NEWER puts of the same ids travel to the actor independently. Afterwards every re-put id must be live in storage with its stamp and readable (purging removes only tombstones, never a live document), and set == store. Non-trivial: every case; distinct = distinct cases.",
    );
    if let Some(path) = &args.replay {
        let r = read_replay(path);
        report.absorb(block_on_paused(c08_actor_case(r["seed"].as_u64().unwrap(), r["index"].as_u64().unwrap())));
        report.finish(args);
        return;
    }
    let seed = args.seed;
    let n = args.pick(20_000, 1_000_000);
    run_cases(&mut report, n, args.threads, Duration::from_secs(args.pick(60, 900)), |i| block_on_paused(c08_actor_case(seed, i)));
    report.floor("purges_racing_a_reput", 5_000);
    report.floor("tombstones_purged_by_the_racing_purge", 5_000);
    report.floor("reputs_of_purged_ids", 5_000);
    report.finish(args);
}

// ---------------------------------------------------------------------------
// C07
// ---------------------------------------------------------------------------

enum C07Backend {
    Mem,
    Sqlite(std::path::PathBuf),
}

async fn c07_case(seed: u64, i: u64, sqlite_dir: Option<&std::path::Path>) -> CaseOut {
    let mut out = CaseOut::default();
    let mut rng = rng_for(seed, 0xC07, i);
    let backend = match sqlite_dir {
        Some(d) if i % 8 == 0 => C07Backend::Sqlite(d.join(format!("c07-{seed}-{i}.db"))),
        _ => C07Backend::Mem,
    };
    let res = match &backend {
        C07Backend::Mem => c07_generic::<MemStore, _, _>(&mut rng, i, &mut out, |prev: Option<Arc<MemStore>>| async move { Ok(prev.unwrap_or_default()) }).await,
        C07Backend::Sqlite(path) => {
            let p = path.clone();
            let r = c07_generic::<datacake_sqlite::SqliteStorage, _, _>(&mut rng, i, &mut out, move |prev| {
                let p = p.clone();
                async move {
                    // close the old handle (the worker thread owns the connection), then open the same file
                    drop(prev);
                    tokio::time::sleep(Duration::from_millis(3)).await;
                    datacake_sqlite::SqliteStorage::open(&p).await.map(Arc::new).map_err(|e| e.to_string())
                }
            })
            .await;
            let _ = std::fs::remove_file(path);
            r
        },
    };
    if let Err(e) = res {
        out.inconclusive = Some(e);
    }
    if !out.violations.is_empty() {
        out.replay = Some(json!({"seed": seed, "index": i}));
    }
    out.counts.push((if matches!(backend, C07Backend::Mem) { "restarts_on_memstore" } else { "restarts_on_sqlite_file" }, 1));
    out
}

pub struct C07State {
    /// deletes of acknowledged requests (whether or not they were still visible when looked at)
    pub acked_deletes: Vec<(String, Key, HLCTimestamp)>,
    pub visible: Vec<(String, Key, HLCTimestamp, bool)>,
    pub trace: Vec<Value>,
    pub purged_possible: bool,
    pub crash_inside: bool,
    /// greatest stamp (ms) named by any request of the history, acknowledged or not: a tombstone can only
    /// have been purged if something at least one forgiveness period newer was ever seen
    pub max_stamp_ms: u64,
}

/// Phase 1: the request history up to the crash point, on a running node.
async fn c07_phase1<I: Backing>(rng: &mut StdRng, i: u64, out: &mut CaseOut, inner: Arc<I>, real_time: bool) -> Result<C07State, String> {
    let ctl = Ctl::new(1);
    let addr = scen_addr(7, i);
    let mut node = ActorNode::start(inner.clone(), ctl.clone(), addr, true).await?;
    let hour_scale = rng.gen_bool(0.5);
    let mut g = ReqGen::new(StdRng::seed_from_u64(rng.gen()), if hour_scale { 30_000_000 } else { 3_000_000 }, false);
    // one history in four works on a larger state (up to 16 ids per keyspace, up to 40 requests)
    let large = i % 4 == 1 || i % 16 == 8; // (the second term gives the SQLite share, i % 8 == 0, large histories too)
    if large {
        g.keys = 16;
    }
    // every third history uses extreme u64 ids (0, 2^63, u64::MAX, ...)
    g.extreme_ids = i % 3 == 0;
    // (which three of them a small history uses rotates: pairs whose numeric order and little-endian byte
    // order disagree - 1 / 256, 255 / 256, 2^32-1 / 2^32 - come up as well as the sign boundary)
    g.id_offset = if i % 2 == 0 { 0 } else { (i / 3) as usize % EXTREME_IDS.len() };
    let nreq = if large { g.rng.gen_range(10..40) } else { g.rng.gen_range(1..10) };
    let crash_inside = g.rng.gen_bool(0.5);
    let keyspaces = ["a", "b"];
    let mut trace = Vec::new();
    // (keyspace, id, stamp, tombstone) made visible by an acknowledged request
    let mut visible: Vec<(String, Key, HLCTimestamp, bool)> = Vec::new();
    let mut acked_deletes: Vec<(String, Key, HLCTimestamp)> = Vec::new();
    let mut max_stamp_ms = 0u64;
    // clients also READ: point lookups (get / multi_get on the node's storage, what the public handle's
    // get / get_many do) before the first write of a keyspace and between requests - a backend that treats
    // a keyspace first touched by a read differently must still list and rebuild it after the restart
    let reads_first = g.rng.gen_bool(0.4);
    if reads_first {
        for ksn in keyspaces {
            if g.rng.gen_bool(0.7) {
                let id = g.rng.gen_range(0..4u64);
                let r = if g.rng.gen_bool(0.5) { node.store.get(ksn, id).await.map(|_| ()) } else { node.store.multi_get(ksn, [id, id + 1].into_iter()).await.map(|_| ()) };
                if let Err(e) = r {
                    return Err(format!("read before the first write failed: {e}"));
                }
                trace.push(json!({"keyspace": ksn, "request": "point lookup before anything was written"}));
                out.count("keyspaces_first_touched_by_a_read", 1);
            }
        }
    }
    for k in 0..nreq {
        let ksn = *keyspaces.choose(&mut g.rng).unwrap();
        let last = k + 1 == nreq;
        if g.rng.gen_bool(0.1) {
            let other = *keyspaces.choose(&mut g.rng).unwrap();
            let _ = node.store.get(other, g.rng.gen_range(0..4u64)).await;
            trace.push(json!({"keyspace": other, "request": "point lookup"}));
        }
        let req = g.next(true);
        if last && crash_inside && !matches!(req, Req::Purge) {
            ctl.park_after.store(g.rng.gen_range(0..3), Ordering::SeqCst);
        }
        trace.push(json!({"keyspace": ksn, "request": req_json(&req), "crash_inside": last && crash_inside}));
        {
            let stamps: Vec<HLCTimestamp> = match &req {
                Req::Set { ts, .. } | Req::RpcPut { ts, .. } | Req::Del { ts, .. } | Req::RpcRemove { ts, .. } => vec![*ts],
                Req::MultiSet { docs, .. } | Req::RpcMultiPut { docs } | Req::MultiDel { docs, .. } | Req::RpcMultiRemove { docs } => docs.iter().map(|d| d.1).collect(),
                Req::RpcBatch { puts, dels } => puts.iter().chain(dels.iter()).map(|d| d.1).collect(),
                Req::Purge => vec![],
            };
            for t in stamps {
                max_stamp_ms = max_stamp_ms.max(t.datacake_timestamp().as_millis() as u64);
            }
        }
        let fut = node.send(ksn, &req);
        let finished = if real_time {
            tokio::time::timeout(Duration::from_millis(150), fut).await
        } else {
            tokio::time::timeout(Duration::from_secs(5), fut).await
        };
        if finished.is_ok() {
            // the request is over: a crash point it did not reach must not fire later (e.g. in a purge tick)
            ctl.park_after.store(-1, Ordering::SeqCst);
        }
        match finished {
            Ok(true) => {
                out.count("requests_acknowledged", 1);
                // what did this acknowledged request make visible? (read storage right after the ack)
                let items: Vec<(Key, HLCTimestamp, bool)> = match &req {
                    Req::Set { key, ts, .. } | Req::RpcPut { key, ts } => vec![(*key, *ts, false)],
                    Req::Del { key, ts, .. } | Req::RpcRemove { key, ts } => vec![(*key, *ts, true)],
                    Req::MultiSet { docs, .. } | Req::RpcMultiPut { docs } => docs.iter().map(|d| (d.0, d.1, false)).collect(),
                    Req::MultiDel { docs, .. } | Req::RpcMultiRemove { docs } => docs.iter().map(|d| (d.0, d.1, true)).collect(),
                    Req::RpcBatch { puts, dels } => puts.iter().map(|d| (d.0, d.1, false)).chain(dels.iter().map(|d| (d.0, d.1, true))).collect(),
                    Req::Purge => vec![],
                };
                let (live, dead) = store_listing(node.store.as_ref(), ksn).await?;
                // ... and what does the running node itself say it holds (its in-memory set)? An
                // acknowledged mutation the node reports as applied counts as visible even if the
                // backend did not write it: it must survive the restart all the same.
                let (set_live, set_dead) = if items.is_empty() {
                    (Vec::new(), Vec::new())
                } else {
                    // (bounded: a purge tick of the group may meanwhile have been parked inside the storage
                    // wrapper by the armed crash point; then only storage is consulted)
                    let look = async {
                        let ks = node.group.get_or_create_keyspace(ksn).await;
                        set_of(&ks).await
                    };
                    match tokio::time::timeout(Duration::from_secs(2), look).await {
                        Ok(r) => enumerate(&r?),
                        Err(_) => {
                            out.count("set_not_readable_after_ack", 1);
                            (Vec::new(), Vec::new())
                        },
                    }
                };
                for (id, t, tomb) in items {
                    if tomb {
                        acked_deletes.push((ksn.to_string(), id, t));
                    }
                    let in_store = if tomb { dead.contains(&(id, t)) } else { live.contains(&(id, t)) };
                    let in_set = if tomb { set_dead.contains(&(id, t)) } else { set_live.contains(&(id, t)) };
                    if in_store || in_set {
                        visible.push((ksn.to_string(), id, t, tomb));
                        if !in_store {
                            out.count("applied_by_the_node_but_not_in_storage_at_ack", 1);
                        }
                    }
                }
            },
            Ok(false) => out.count("requests_failed", 1),
            Err(_) => {
                out.count("crashed_inside_a_request", 1);
            },
        }
    }
    // A purge may legitimately remove a visible tombstone. Under virtual time only
    // explicit purge requests can run (the group's own purge task ticks once before any
    // keyspace exists and then hourly); on the real-time runtimes used for SQLite / LMDB that
    // first tick can land a few milliseconds into the history.
    let purged_possible = real_time || trace.iter().any(|t| t["request"] == "purge");
    // ---- stop: the group, its actors and the server are dropped (or the process exits)
    node.stop();
    ctl.park_after.store(-1, Ordering::SeqCst);
    Ok(C07State { acked_deletes, visible, trace, purged_possible, crash_inside, max_stamp_ms })
}

/// Phase 2: a fresh node on the same storage; oracle.
async fn c07_phase2<I: Backing>(i: u64, out: &mut CaseOut, inner2: Arc<I>, st: &C07State) -> Result<(), String> {
    let (visible, trace) = (&st.visible, &st.trace);
    let ctl2 = Ctl::new(1);
    let node2 = ActorNode::start(inner2.clone(), ctl2, scen_addr(8, i), true).await?;
    out.count("restarts", 1);
    let listed = node2.store.get_keyspace_list().await.map_err(|e| e.to_string())?;
    for ksn in &listed {
        let ks = node2.group.get_or_create_keyspace(ksn).await;
        let set = enumerate(&set_of(&ks).await?);
        let store = store_listing(node2.store.as_ref(), ksn).await?;
        out.count("keyspaces_compared_after_restart", 1);
        if set != store {
            out.violate(
                format!("C07:rebuilt-set-differs-from-storage:{}", classify_disagreement(&set, &store)),
                json!({"keyspace": ksn, "trace": trace, "rebuilt": listing_json(&set), "storage": listing_json(&store)}),
            );
        }
    }
    // every mutation visible before the stop is still there or superseded by a newer stamp for that id
    for (ksn, id, t, tomb) in visible {
        let (live, dead) = store_listing(node2.store.as_ref(), ksn).await?;
        // (still there = same stamp AND same kind: a document that comes back as a tombstone carrying the
        // document's own stamp is lost, not kept; unless the history itself named that stamp for both kinds)
        let same = if *tomb { dead.contains(&(*id, *t)) } else { live.contains(&(*id, *t)) };
        let both_kinds_named = visible.iter().any(|(k2, id2, t2, tomb2)| k2 == ksn && id2 == id && t2 == t && tomb2 != tomb);
        let flipped = if *tomb { live.contains(&(*id, *t)) } else { dead.contains(&(*id, *t)) };
        let newer_or_same = same || (flipped && both_kinds_named) || live.iter().chain(dead.iter()).any(|e| e.0 == *id && e.1 > *t);
        // a purge may legitimately remove a tombstone that was visible, including the
        // tombstone which superseded this mutation
        // (on the real-time runtimes the purge can even run between the acknowledgement of the
        // delete and this monitor's look at storage, so acknowledged deletes count, seen or not)
        // ... and only a tombstone at least one forgiveness period older than the newest stamp the
        // history ever named can have been purged at all
        let purgeable = |td: &HLCTimestamp| td.datacake_timestamp().as_millis() as u64 + 3_590_000 <= st.max_stamp_ms;
        let superseded_by_a_purgeable_delete = visible.iter().any(|(k2, id2, t2, tomb2)| k2 == ksn && id2 == id && *tomb2 && t2 > t && purgeable(t2))
            || st.acked_deletes.iter().any(|(k2, id2, t2)| k2 == ksn && id2 == id && t2 > t && purgeable(t2));
        let purged_ok = st.purged_possible && ((*tomb && purgeable(t)) || superseded_by_a_purgeable_delete);
        if !newer_or_same && !purged_ok {
            let sig = if flipped { "C07:acknowledged-visible-mutation-changed-kind-by-restart" } else { "C07:acknowledged-visible-mutation-lost-by-restart" };
            out.violate(sig, json!({"keyspace": ksn, "id": id, "stamp": ts_json(*t), "tombstone": tomb, "after_restart_storage_lists_it_as": if flipped { if *tomb { "a live document with that stamp" } else { "a tombstone with that stamp" } } else { "nothing with that or a newer stamp" }, "trace": trace}));
        }
        if !listed.contains(ksn) {
            out.violate("C07:keyspace-with-visible-mutation-not-listed-after-restart", json!({"keyspace": ksn, "listed": listed}));
        }
    }
    if st.crash_inside || visible.len() >= 2 {
        out.nontrivial = Some(hash_of(&format!("{trace:?}")));
    }
    if i == 5 || i == 4 {
        out.sample = Some(json!({"trace": trace, "visible_before_stop": visible.len(), "keyspaces_after_restart": listed}));
    }
    node2.stop();
    Ok(())
}

async fn c07_generic<I, F, Fut>(rng: &mut StdRng, i: u64, out: &mut CaseOut, open: F) -> Result<(), String>
where
    I: Backing,
    F: Fn(Option<Arc<I>>) -> Fut,
    Fut: std::future::Future<Output = Result<Arc<I>, String>>,
{
    let real_time = std::any::type_name::<I>().contains("Sqlite");
    let inner = open(None).await?;
    let st = c07_phase1(rng, i, out, inner.clone(), real_time).await?;
    // ---- restart on the same storage
    let inner2 = open(Some(inner)).await?;
    c07_phase2(i, out, inner2, &st).await
}

/// LMDB: the two phases run in two different processes (an LMDB environment cannot be
/// opened twice in one process and the stopped incarnation's tasks keep it alive): the first
/// process exits abruptly after the crash point, the second one opens the same directory.
/// `mon C07-lmdb --phase 1|2 --index I --dir D --state S.json --out O.json`
pub fn c07_lmdb_child(args: &Args) {
    let phase = args.opt_u64("phase", 1);
    let i = args.opt_u64("index", 0);
    let dir = std::path::PathBuf::from(args.opt_str("dir").expect("--dir"));
    let state_path = std::path::PathBuf::from(args.opt_str("state").expect("--state"));
    let seed = args.seed;
    let rt = tokio::runtime::Builder::new_current_thread().enable_all().thread_keep_alive(Duration::from_secs(1_000_000)).build().unwrap();
    let mut report = Report::new(args, "E1-actor-c07-lmdb-child", "child");
    let mut out = CaseOut::default();
    if phase == 1 {
        let mut rng = rng_for(seed, 0xC07, i);
        let res: Result<C07State, String> = rt.block_on(async {
            let inner = datacake_lmdb::LmdbStorage::open(&dir).await.map(Arc::new).map_err(|e| e.to_string())?;
            c07_phase1(&mut rng, i, &mut out, inner, true).await
        });
        match res {
            Ok(st) => {
                let v = json!({
                    "acked_deletes": st.acked_deletes.iter().map(|(k, id, t)| json!([k, id, t.as_u64()])).collect::<Vec<_>>(),
                    "visible": st.visible.iter().map(|(k, id, t, tomb)| json!([k, id, t.as_u64(), tomb])).collect::<Vec<_>>(),
                    "trace": st.trace, "purged_possible": st.purged_possible, "crash_inside": st.crash_inside, "max_stamp_ms": st.max_stamp_ms,
                    "counts": out.counts.iter().map(|(k, n)| json!([k, n])).collect::<Vec<_>>(),
                });
                std::fs::write(&state_path, serde_json::to_vec(&v).unwrap()).unwrap();
            },
            Err(e) => {
                std::fs::write(&state_path, serde_json::to_vec(&json!({"error": e})).unwrap()).unwrap();
            },
        }
        // the crash: no destructors, no clean shutdown of the environment
        std::mem::forget(rt);
        std::process::exit(0);
    }
    let v: Value = serde_json::from_slice(&std::fs::read(&state_path).unwrap_or_default()).unwrap_or(Value::Null);
    if let Some(e) = v.get("error") {
        out.inconclusive = Some(format!("phase 1 failed: {e}"));
    } else if v.is_null() {
        out.inconclusive = Some("phase 1 left no state file".into());
    } else {
        let st = C07State {
            acked_deletes: v["acked_deletes"].as_array().cloned().unwrap_or_default().iter().map(|e| (e[0].as_str().unwrap().to_string(), e[1].as_u64().unwrap(), HLCTimestamp::from_u64(e[2].as_u64().unwrap()))).collect(),
            visible: v["visible"].as_array().unwrap().iter().map(|e| (e[0].as_str().unwrap().to_string(), e[1].as_u64().unwrap(), HLCTimestamp::from_u64(e[2].as_u64().unwrap()), e[3].as_bool().unwrap())).collect(),
            trace: v["trace"].as_array().cloned().unwrap_or_default(),
            purged_possible: v["purged_possible"].as_bool().unwrap_or(true),
            max_stamp_ms: v["max_stamp_ms"].as_u64().unwrap_or(u64::MAX),
            crash_inside: v["crash_inside"].as_bool().unwrap_or(false),
        };
        for c in v["counts"].as_array().cloned().unwrap_or_default() {
            let name: &'static str = match c[0].as_str().unwrap_or("") {
                "requests_acknowledged" => "requests_acknowledged",
                "requests_failed" => "requests_failed",
                "crashed_inside_a_request" => "crashed_inside_a_request",
                _ => "other",
            };
            out.count(name, c[1].as_u64().unwrap_or(0));
        }
        let res: Result<(), String> = rt.block_on(async {
            let inner2 = datacake_lmdb::LmdbStorage::open(&dir).await.map(Arc::new).map_err(|e| e.to_string())?;
            c07_phase2(i, &mut out, inner2, &st).await
        });
        if let Err(e) = res {
            out.inconclusive = Some(e);
        }
        out.count("restarts_on_lmdb", 1);
        if !out.violations.is_empty() {
            out.replay = Some(json!({"seed": seed, "index": i, "backend": "lmdb"}));
        }
    }
    report.absorb(out);
    report.finish(args);
    std::mem::forget(rt);
    std::process::exit(0);
}

/// Runs one LMDB restart case through the two child processes and returns the second one's report.
fn c07_lmdb_case(seed: u64, i: u64, root: &std::path::Path) -> Result<Value, String> {
    let exe = std::env::current_exe().map_err(|e| e.to_string())?;
    let dir = root.join(format!("lmdb-{i}"));
    let _ = std::fs::create_dir_all(&dir);
    let state = root.join(format!("lmdb-{i}.state.json"));
    let outp = root.join(format!("lmdb-{i}.out.json"));
    let mut result = Err("phase 2 produced no report".to_string());
    for phase in ["1", "2"] {
        let st = std::process::Command::new(&exe)
            .arg("C07-lmdb")
            .args(["--seed", &seed.to_string(), "--index", &i.to_string(), "--phase", phase])
            .arg("--dir")
            .arg(&dir)
            .arg("--state")
            .arg(&state)
            .arg("--out")
            .arg(&outp)
            .stderr(std::process::Stdio::null())
            .status();
        if !matches!(&st, Ok(s) if s.success()) {
            result = Err(format!("LMDB restart case {i}: phase {phase} child failed: {st:?}"));
            break;
        }
    }
    if let Ok(bytes) = std::fs::read(&outp) {
        if let Ok(v) = serde_json::from_slice::<Value>(&bytes) {
            result = Ok(v);
        }
    }
    let _ = std::fs::remove_dir_all(&dir);
    let _ = std::fs::remove_file(&state);
    let _ = std::fs::remove_file(&outp);
    result
}

pub fn c07(args: &Args) {
    let mut report = Report::new(
        args,
        "E1-actor",
        "request histories of 1..9 requests over 3 ids (one in four: 10..39 requests over 16 ids) (same alphabet as C02 incl. service payloads, 2 keyspaces, hour-scale stamps in half) against a real KeyspaceGroup; crash point = after any request, or INSIDE the last one (the wrapper performs the inner write - for bulk calls of the first j documents - and never returns; group, actors and server are dropped). Restart = fresh KeyspaceGroup + load_states_from_storage on the same storage (MemStore shared Arc; SQLite file closed and reopened, 1 in 8; LMDB: 400 further histories where the first process exits abruptly at the crash point and a second process opens the same directory). Oracle: for every keyspace storage lists, the rebuilt set's listing == iter_metadata (ids, stamps, live/tombstone); every mutation that was visible in storage right after its acknowledgement is present after the restart or superseded by a newer stamp for that id. Non-trivial = crashed inside a request or >= 2 visible mutations; distinct = distinct histories.",
    );
    let dir = scratch_dir("c07");
    if let Some(path) = &args.replay {
        let r = read_replay(path);
        let (seed, i) = (r["seed"].as_u64().unwrap(), r["index"].as_u64().unwrap());
        let out = if i % 8 == 0 { block_on_real(0, c07_case(seed, i, Some(&dir))) } else { block_on_paused(c07_case(seed, i, None)) };
        report.absorb(out);
        let _ = std::fs::remove_dir_all(&dir);
        report.finish(args);
        return;
    }
    let seed = args.seed;
    let n = args.pick(40_000, 2_000_000);
    let d2 = dir.clone();
    run_cases(&mut report, n, args.threads, Duration::from_secs(args.pick(150, 2400)), move |i| {
        if i % 8 == 0 {
            // SQLite does real I/O on its own thread: real-time runtime
            block_on_real(0, c07_case(seed, i, Some(&d2)))
        } else {
            block_on_paused(c07_case(seed, i, None))
        }
    });
    // LMDB: every restart is a real process exit followed by a new process on the same directory
    let n_lmdb = args.pick(400, 20_000);
    let d3 = dir.clone();
    let lmdb_reports: Mutex<Vec<Result<Value, String>>> = Mutex::new(Vec::new());
    {
        let mut dummy = Report::new(args, "lmdb-driver", "");
        run_cases(&mut dummy, n_lmdb, args.threads, Duration::from_secs(args.pick(120, 1800)), |k| {
            let r = c07_lmdb_case(seed, 10_000_000 + k, &d3);
            lmdb_reports.lock().push(r);
            CaseOut::default()
        });
    }
    for r in lmdb_reports.into_inner() {
        match r {
            Ok(v) => report.merge_child(&v),
            Err(e) => {
                report.inconclusive_count += 1;
                if report.inconclusive.len() < 5 {
                    report.inconclusive.push(e);
                }
            },
        }
    }
    let _ = std::fs::remove_dir_all(&dir);
    report.floor("restarts_on_lmdb", 100);
    report.floor("restarts", 10_000);
    report.floor("crashed_inside_a_request", 1_000);
    report.floor("restarts_on_sqlite_file", 500);
    report.finish(args);
}

// ---------------------------------------------------------------------------
// C18
// ---------------------------------------------------------------------------

async fn c18_round(seed: u64, r: u64, k: usize, entry: u64, pre_yield: bool) -> CaseOut {
    let mut out = CaseOut::default();
    let ctl = Ctl::new(1);
    let addr = scen_addr(18, r);
    let node = match ActorNode::start(Arc::new(MemStore::default()), ctl.clone(), addr, false).await {
        Ok(n) => n,
        Err(e) => {
            out.inconclusive = Some(e);
            return out;
        },
    };
    // one round in three makes its first uses on ONE fresh name, the others on two or three DIFFERENT fresh
    // names at the same time (the creation of one keyspace must not disturb the creation of another)
    let ksns: Vec<String> = (0..1 + (r % 3) as usize).map(|j| format!("fresh-{seed}-{r}-{j}")).collect();
    let base = 70_000_000u64;
    let mut handles = Vec::new();
    for t in 0..k {
        let group = node.group.clone();
        let name_idx = t % ksns.len();
        let ksn = ksns[name_idx].clone();
        let mut rng = rng_for(seed, 0xC18_000 + r, t as u64);
        let stamp = ts(base + t as u64 * 4, 0, 10 + t as u8);
        let chan = Channel::connect(addr);
        handles.push(tokio::spawn(async move {
            if pre_yield {
                for _ in 0..rng.gen_range(0..4) {
                    tokio::task::yield_now().await;
                }
            }
            let id = 1000 + t as u64;
            let which = (entry + t as u64) % 8;
            // entry points 4..7 make the first use a DELETE: it must end up as a tombstone in the state
            let is_del = which >= 4;
            let ok = match which {
                // first use directly through the group
                0 => {
                    let ks = group.get_or_create_keyspace(&ksn).await;
                    ks.send(ecv::Set { source: 0, doc: doc(id, stamp), ctx: None, _marker: PhantomData }).await.is_ok()
                },
                // incoming replication: consistency put / remove
                1 => {
                    let mut c = ecv::ConsistencyClient::<HStore<MemStore>>::new(Clock::new(200), chan);
                    c.put(ksn.clone(), doc(id, stamp), 77, SocketAddr::from(([10, 77, 0, 1], 1))).await.is_ok()
                },
                2 => {
                    let mut c = ecv::ConsistencyClient::<HStore<MemStore>>::new(Clock::new(201), chan);
                    c.multi_put(ksn.clone(), [doc(id, stamp)].into_iter(), 77, SocketAddr::from(([10, 77, 0, 1], 1))).await.is_ok()
                },
                // repair: a peer asks for the state first (creates the keyspace), then a write arrives
                3 => {
                    let mut rc = ecv::ReplicationClient::<HStore<MemStore>>::new(Clock::new(202), chan);
                    let _ = rc.get_state(ksn.clone()).await;
                    let ks = group.get_or_create_keyspace(&ksn).await;
                    ks.send(ecv::Set { source: 1, doc: doc(id, stamp), ctx: None, _marker: PhantomData }).await.is_ok()
                },
                // incoming replication of deletes: remove, multi-remove, and the distributor's batch message
                4 => {
                    let mut c = ecv::ConsistencyClient::<HStore<MemStore>>::new(Clock::new(203), chan);
                    c.del(ksn.clone(), id, stamp).await.is_ok()
                },
                5 => {
                    let mut c = ecv::ConsistencyClient::<HStore<MemStore>>::new(Clock::new(204), chan);
                    let mut v: SmallVec<[DocumentMetadata; 4]> = SmallVec::new();
                    v.push(DocumentMetadata::new(id, stamp));
                    c.multi_del(ksn.clone(), v).await.is_ok()
                },
                6 => {
                    let clock = Clock::new(205);
                    let timestamp = clock.get_time().await;
                    let mut c = ecv::ConsistencyClient::<HStore<MemStore>>::new(clock, chan);
                    let mut docs: SmallVec<[DocumentMetadata; 4]> = SmallVec::new();
                    docs.push(DocumentMetadata::new(id, stamp));
                    let mut removed = SmallVec::new();
                    removed.push(ecv::MultiRemovePayload { keyspace: ksn.clone(), documents: docs, timestamp });
                    let batch = ecv::BatchPayload { timestamp, modified: SmallVec::new(), removed };
                    c.apply_batch(&batch).await.is_ok()
                },
                // a delete through the group itself
                _ => {
                    let ks = group.get_or_create_keyspace(&ksn).await;
                    ks.send(ecv::Del { source: 0, doc: DocumentMetadata::new(id, stamp), _marker: PhantomData }).await.is_ok()
                },
            };
            (name_idx, id, stamp, ok, is_del)
        }));
    }
    let mut all_acked = Vec::new();
    let mut all_acked_dels = Vec::new();
    for h in handles {
        match h.await {
            Ok((n, id, stamp, true, false)) => all_acked.push((n, id, stamp)),
            Ok((n, id, stamp, true, true)) => all_acked_dels.push((n, id, stamp)),
            Ok(_) => {},
            Err(e) => out.inconclusive = Some(format!("task failed: {e}")),
        }
    }
    out.count("first_uses", k as u64);
    if ksns.len() > 1 {
        out.count("rounds_with_first_uses_of_several_names_at_once", 1);
    }
    for (name_idx, ksn) in ksns.iter().enumerate() {
    let ksn = ksn.clone();
    let mut acked: Vec<(Key, HLCTimestamp)> = all_acked.iter().filter(|a| a.0 == name_idx).map(|a| (a.1, a.2)).collect();
    let mut acked_dels: Vec<(Key, HLCTimestamp)> = all_acked_dels.iter().filter(|a| a.0 == name_idx).map(|a| (a.1, a.2)).collect();
    if acked.is_empty() && acked_dels.is_empty() {
        continue;
    }
    acked.sort();
    acked_dels.sort();
    out.count("first_uses_that_were_deletes", acked_dels.len() as u64);
    let creations = ecv::take_add_state_calls(&ksn);
    out.count("keyspace_states_created", creations as u64);
    if creations >= 2 {
        out.count("rounds_with_overlapping_first_use", 1);
        out.nontrivial = Some(hash_of(&(r, k, entry, creations)));
    }
    // peers learn which keyspaces exist (and changed) from the keyspace timestamps the node
    // advertises: the name must be there, or nobody will ever synchronise against it
    let advertised = node.group.get_keyspace_info().await.keyspace_timestamps;
    if !advertised.contains_key(&ksn) {
        out.violate(
            "C18:keyspace-in-use-not-advertised-to-peers",
            json!({"keyspace": ksn, "advertised": advertised.keys().collect::<Vec<_>>(), "concurrent_first_uses": k, "names_first_used_at_once": ksns.len(), "states_created": creations}),
        );
    }
    // a later lookup
    let ks = node.group.get_or_create_keyspace(&ksn).await;
    match set_of(&ks).await {
        Ok(set) => {
            let listing = enumerate(&set);
            let missing_dels: Vec<_> = acked_dels.iter().filter(|a| !listing.1.contains(a)).collect();
            if !missing_dels.is_empty() {
                out.violate(
                    "C18:acknowledged-delete-missing-from-the-keyspace-state",
                    json!({"keyspace": ksn, "concurrent_first_uses": k, "names_first_used_at_once": ksns.len(), "states_created": creations, "acknowledged_deletes": acked_dels.len(),
                        "missing": missing_dels.iter().map(|m| json!([m.0, ts_json(m.1)])).collect::<Vec<_>>(), "state": listing_json(&listing)}),
                );
            }
            let missing: Vec<_> = acked.iter().filter(|a| !listing.0.contains(a)).collect();
            if !missing.is_empty() {
                out.violate(
                    "C18:acknowledged-operation-missing-from-the-keyspace-state",
                    json!({"keyspace": ksn, "concurrent_first_uses": k, "names_first_used_at_once": ksns.len(), "states_created": creations, "acknowledged": acked.len(), "missing": missing.iter().map(|m| json!([m.0, ts_json(m.1)])).collect::<Vec<_>>(), "state": listing_json(&listing)}),
                );
            }
            match store_listing(node.store.as_ref(), &ksn).await {
                Ok(store) if store != listing => out.violate(
                    "C18:set-and-store-disagree-after-concurrent-first-use",
                    json!({"set": listing_json(&listing), "store": listing_json(&store), "states_created": creations}),
                ),
                _ => {},
            }
        },
        Err(e) => out.inconclusive = Some(e),
    }
    if r % 997 == 5 {
        out.sample = Some(json!({"keyspace": ksn, "names_first_used_at_once": ksns.len(), "concurrent_first_uses": k, "entry_point_rotation": entry % 4, "states_created": creations, "acknowledged": acked.len()}));
    }
    }
    if !out.violations.is_empty() {
        out.replay = Some(json!({"round": r, "k": k, "entry": entry}));
    }
    node.stop();
    out
}

/// First uses of keyspace names on node B racing B's own repair from a peer A which already holds
/// those names (the repair path learns of keyspaces from the peer and creates them locally).
async fn c18_repair_round(seed: u64, r: u64, pre_yield: bool) -> CaseOut {
    let mut out = CaseOut::default();
    let mut rng = rng_for(seed, 0xC18_4E9, r);
    let (addr_a, addr_b) = (scen_addr(28, r), scen_addr(29, r));
    let a = match ActorNode::start(Arc::new(MemStore::default()), Ctl::new(1), addr_a, false).await {
        Ok(n) => n,
        Err(e) => {
            out.inconclusive = Some(e);
            return out;
        },
    };
    let b = match ActorNode::start(Arc::new(MemStore::default()), Ctl::new(2), addr_b, false).await {
        Ok(n) => n,
        Err(e) => {
            out.inconclusive = Some(e);
            return out;
        },
    };
    let m = *[1usize, 2, 5, 12, 40].choose(&mut rng).unwrap();
    let names: Vec<String> = (0..m).map(|j| format!("peer-held-{seed}-{r}-{j}")).collect();
    let base = 70_000_000u64;
    // the peer holds one document in each keyspace
    for (j, n) in names.iter().enumerate() {
        let ks = a.group.get_or_create_keyspace(n).await;
        let _ = ks.send(ecv::Set { source: 0, doc: doc(5_000 + j as u64, ts(base + j as u64 * 4, 0, 1)), ctx: None, _marker: PhantomData }).await;
    }
    for n in &names {
        let _ = ecv::take_add_state_calls(n); // the peer's own creations do not count
    }
    // in a third of the rounds the peer's answers to the state requests are lost (for some of the names),
    // held for a while first: the repair of those keyspaces fails after the local first uses were accepted
    let fail_states = rng.gen_range(0..3) == 0;
    if fail_states {
        let hold = rng.gen_range(0..20u64);
        let lose: u64 = rng.gen();
        datacake_rpc::verif::set_policy(
            addr_a,
            Some(Arc::new(move |m: datacake_rpc::verif::MsgInfo| {
                Box::pin(async move {
                    if m.uri.contains("GetState") && (hash_of(&m.body) ^ lose) % 3 != 0 {
                        tokio::time::sleep(Duration::from_millis(hold)).await;
                        datacake_rpc::verif::Verdict::DropReply
                    } else {
                        datacake_rpc::verif::Verdict::Deliver
                    }
                })
            })),
        );
        out.count("repair_rounds_with_failing_state_requests", 1);
    }
    // B repairs from A while the first local uses of the same names arrive at B
    let repair = {
        let group = b.group.clone();
        tokio::spawn(async move { ecv::repair_from(group, RpcNetwork::default(), 1, addr_a).await })
    };
    let mut handles = Vec::new();
    for (j, n) in names.iter().enumerate() {
        let group = b.group.clone();
        let n = n.clone();
        let yields = if pre_yield { rng.gen_range(0..12) } else { 0 };
        let entry = rng.gen_range(0..3);
        let stamp = ts(base + 1_000 + j as u64 * 4, 0, 40 + (j % 100) as u8);
        let chan = Channel::connect(addr_b);
        handles.push(tokio::spawn(async move {
            for _ in 0..yields {
                tokio::task::yield_now().await;
            }
            let id = 9_000 + j as u64;
            let ok = match entry {
                0 => {
                    let ks = group.get_or_create_keyspace(&n).await;
                    ks.send(ecv::Set { source: 0, doc: doc(id, stamp), ctx: None, _marker: PhantomData }).await.is_ok()
                },
                1 => {
                    let mut c = ecv::ConsistencyClient::<HStore<MemStore>>::new(Clock::new(200), chan);
                    c.put(n.clone(), doc(id, stamp), 77, SocketAddr::from(([10, 77, 0, 1], 1))).await.is_ok()
                },
                _ => {
                    let mut c = ecv::ConsistencyClient::<HStore<MemStore>>::new(Clock::new(201), chan);
                    c.multi_put(n.clone(), [doc(id, stamp)].into_iter(), 77, SocketAddr::from(([10, 77, 0, 1], 1))).await.is_ok()
                },
            };
            (n, id, stamp, ok)
        }));
    }
    let mut acked = Vec::new();
    for h in handles {
        match h.await {
            Ok((n, id, stamp, true)) => acked.push((n, id, stamp)),
            Ok(_) => {},
            Err(e) => out.inconclusive = Some(format!("task failed: {e}")),
        }
    }
    let synced = repair.await.map(|t| t.len()).unwrap_or(0);
    out.count("first_uses_during_a_repair", m as u64);
    out.count("keyspaces_synchronised_by_the_repair", synced as u64);
    let mut overlapped = 0u64;
    for n in &names {
        if ecv::take_add_state_calls(n) >= 2 {
            overlapped += 1;
        }
    }
    out.count("keyspace_states_created_twice_during_repair", overlapped);
    out.nontrivial = Some(hash_of(&("repair", r, m, overlapped)));
    for (n, id, stamp) in &acked {
        let ks = b.group.get_or_create_keyspace(n).await;
        match set_of(&ks).await {
            Ok(set) => {
                let listing = enumerate(&set);
                if !listing.0.contains(&(*id, *stamp)) {
                    out.violate(
                        "C18:acknowledged-operation-missing-from-the-keyspace-state:first-use-during-repair-from-a-peer",
                        json!({"keyspace": n, "missing": [id, ts_json(*stamp)], "state": listing_json(&listing), "names_held_by_the_peer": m, "round": r}),
                    );
                    break;
                }
                match store_listing(b.store.as_ref(), n).await {
                    Ok(store) if store != listing => {
                        out.violate(
                            "C18:set-and-store-disagree-after-first-use-during-repair",
                            json!({"keyspace": n, "set": listing_json(&listing), "store": listing_json(&store)}),
                        );
                        break;
                    },
                    _ => {},
                }
            },
            Err(e) => out.inconclusive = Some(e),
        }
    }
    if !out.violations.is_empty() {
        out.replay = Some(json!({"mode": "repair", "round": r}));
    }
    a.stop();
    b.stop();
    out
}

/// A REAL node start-up (DatacakeNodeBuilder + EventuallyConsistentStoreExtension, i.e. the library's own
/// `EventuallyConsistentStore::create`, loopback TCP/UDP, real time) on storage that already holds
/// keyspaces and is slow to list them, while a peer keeps sending the first incoming write for one of the
/// persisted keyspace names from the moment the node's RPC server is up. Whenever that write is
/// acknowledged, it must be in the state the node serves to peers once the start-up has finished.
async fn c18_startup_case(seed: u64, i: u64) -> CaseOut {
    use datacake_eventual_consistency::EventuallyConsistentStoreExtension;
    use datacake_node::{ConnectionConfig, DCAwareSelector, DatacakeNodeBuilder};
    let mut out = CaseOut::default();
    let mut rng = rng_for(seed, 0xC18_57A7, i);
    let inner = Arc::new(MemStore::default());
    let ctl = Ctl::new(1);
    let base = 70_000_000u64;
    // what the previous incarnation left behind: two or three keyspaces with a few documents each
    let names: Vec<String> = (0..rng.gen_range(2..=3)).map(|k| format!("persisted-{k}")).collect();
    for (k, n) in names.iter().enumerate() {
        for d in 0..rng.gen_range(1..5u64) {
            let _ = inner.put(n, doc(d, ts(base + (k as u64) * 100 + d * 4, 0, 3))).await;
        }
    }
    ctl.slow_read_ms.store(rng.gen_range(40..250), Ordering::SeqCst);
    let store = HStore::new(inner.clone(), ctl.clone());
    let addr = crate::rpc::free_tcp_addr();
    let node = match DatacakeNodeBuilder::<DCAwareSelector>::new(1, ConnectionConfig::new(addr, addr, Vec::<String>::new())).connect().await {
        Ok(n) => n,
        Err(e) => {
            out.inconclusive = Some(format!("cannot start a real node on loopback: {e}"));
            return out;
        },
    };
    // the peer: first incoming write for a persisted keyspace, retried until the service answers
    let target = names[rng.gen_range(0..names.len())].clone();
    let stamp = ts(base + 50_000, 0, 9);
    // (the peer's write leaves at an arbitrary moment of the start-up)
    let leaves_after = Duration::from_millis(rng.gen_range(0..500));
    let peer = {
        let target = target.clone();
        tokio::spawn(async move {
            tokio::time::sleep(leaves_after).await;
            let mut c = ecv::ConsistencyClient::<HStore<MemStore>>::new(Clock::new(9), Channel::connect(addr));
            let t0 = std::time::Instant::now();
            let mut refusals = 0u32;
            while t0.elapsed() < Duration::from_secs(20) {
                match c.put(target.clone(), doc(777, stamp), 9, SocketAddr::from(([127, 0, 0, 1], 1))).await {
                    Ok(()) => return (true, refusals),
                    Err(_) => {
                        refusals += 1;
                        tokio::time::sleep(Duration::from_millis(3)).await;
                    },
                }
            }
            (false, refusals)
        })
    };
    let started = node.add_extension(EventuallyConsistentStoreExtension::new(store)).await;
    let store_ext = match started {
        Ok(s) => s,
        Err(e) => {
            out.inconclusive = Some(format!("store extension did not start: {e}"));
            return out;
        },
    };
    let (acked, refusals) = peer.await.unwrap_or((false, 0));
    if !acked {
        out.inconclusive = Some("the peer's write was never acknowledged".into());
        return out;
    }
    out.count("real_node_startups_with_an_incoming_first_write", 1);
    out.count("refusals_before_the_service_answered", refusals as u64);
    tokio::time::sleep(Duration::from_millis(50)).await;
    let mut rc = ecv::ReplicationClient::<HStore<MemStore>>::new(Clock::new(10), Channel::connect(addr));
    match rc.get_state(target.clone()).await {
        Ok((_l, set)) => {
            let listing = enumerate(&set);
            if !listing.0.contains(&(777, stamp)) {
                out.violate(
                    "C18:acknowledged-operation-missing-from-the-keyspace-state:first-write-arrived-during-start-up",
                    json!({"keyspace": target, "acknowledged_write": [777, ts_json(stamp)], "state_served_to_peers": listing_json(&listing), "persisted_keyspaces": names,
                        "refusals_before_the_service_answered": refusals}),
                );
            }
            // ... and what was persisted before the restart is there as well
            if let Ok(store) = store_listing(inner.as_ref(), &target).await {
                if store != listing {
                    out.violate("C18:set-and-store-disagree-after-start-up", json!({"keyspace": target, "set": listing_json(&listing), "store": listing_json(&store)}));
                }
            }
        },
        Err(e) => out.inconclusive = Some(format!("get_state after start-up failed: {e:?}")),
    }
    out.nontrivial = Some(hash_of(&("startup", i)));
    if !out.violations.is_empty() {
        out.replay = Some(json!({"mode": "startup", "seed": seed, "index": i}));
    }
    drop(store_ext);
    node.shutdown().await;
    out
}

pub fn c18(args: &Args) {
    let mut report = Report::new(
        args,
        "E1-actor",
        "k in 2..8 tasks concurrently make the first use of a fresh keyspace name on one real KeyspaceGroup through different entry points (get_or_create_keyspace + Set; ConsistencyService put / multi_put over the in-memory transport; ReplicationService GetState followed by a repair-sourced Set; first uses that are DELETES: consistency remove / multi_remove, the distributor's batch message with a 'removed' half only, Del through the group) and send one mutation each (distinct ids, distinct origins, stamps inside one window so every one applies). A later lookup's serialized set must contain every acknowledged operation and agree with storage. Runtimes: current-thread (the awaits inside add_state yield naturally; task order rotated) and multi-thread with 2/4/16 workers and random pre-yields. Second scenario: node B runs a repair from a peer A that already holds 1..40 keyspace names (the repair path creates them on B) while the first local uses of those same names (group, consistency put / multi_put) arrive at B - in a third of the rounds the peer's answers to the state requests are held and then lost, so the repair of those keyspaces fails -; every acknowledged operation must be in the state a later lookup serializes, set == store. Third scenario: REAL node start-ups (DatacakeNodeBuilder + store extension = the library's own create(), loopback sockets, real time) on storage that already holds keyspaces and lists them slowly, while a peer retries the first incoming write for a persisted name from the moment the RPC server is up: once acknowledged it must be in the state served to peers after the start-up. A creation counter (hook H6) observes how many states were created per name. Non-trivial = >= 2 states were created for the name (first uses overlapped); distinct = distinct (round, k, entry rotation, creations).",
    );
    let seed = args.seed;
    let rounds = args.pick(40_000, 1_000_000);
    let t0 = std::time::Instant::now();
    let budget = Duration::from_secs(args.pick(120, 1500));
    // current-thread rounds in parallel OS threads
    run_cases(&mut report, rounds / 2, args.threads, budget, |r| {
        let k = 2 + (r % 7) as usize;
        block_on_paused(c18_round(seed, r, k, r / 7, r % 3 == 0))
    });
    // first uses racing the node's own repair from a peer that already holds the names
    let n_repair = args.pick(4_000, 100_000);
    run_cases(&mut report, n_repair, args.threads, budget, |r| block_on_paused(c18_repair_round(seed, r, r % 4 != 0)));
    {
        let n = n_repair / 20;
        let outs = block_on_real(4, async move {
            let mut v = Vec::new();
            for j in 0..n {
                if t0.elapsed() > budget * 2 {
                    break;
                }
                v.push(c18_repair_round(seed, 50_000_000 + j, true).await);
            }
            v
        });
        for o in outs {
            report.absorb(o);
        }
    }
    // real node start-ups (the library's own create(), loopback sockets, real time)
    {
        let n = args.pick(48, 800);
        let outs = block_on_real(8, async move {
            let mut hs = Vec::new();
            for j in 0..n {
                hs.push(tokio::spawn(c18_startup_case(seed, j)));
                if hs.len() >= 8 {
                    break;
                }
            }
            let mut v = Vec::new();
            let mut next = hs.len() as u64;
            while !hs.is_empty() {
                let h = hs.remove(0);
                if let Ok(o) = h.await {
                    v.push(o);
                }
                // (not tied to the time budget of the phases before: a slow build - TSan - must still observe them)
                if next < n {
                    hs.push(tokio::spawn(c18_startup_case(seed, next)));
                    next += 1;
                }
            }
            v
        });
        for o in outs {
            report.absorb(o);
        }
        report.floor("real_node_startups_with_an_incoming_first_write", 10);
    }
    // multi-thread runtimes, one at a time
    let mut r = rounds;
    for (workers, name) in [(2usize, "rounds_multi_2"), (4, "rounds_multi_4"), (16, "rounds_multi_16")] {
        let n = rounds / 6;
        let outs = block_on_real(workers, async move {
            let mut v = Vec::new();
            for j in 0..n {
                if t0.elapsed() > budget * 2 {
                    break;
                }
                let k = 2 + (j % 7) as usize;
                let mut o = c18_round(seed, r + j, k, j / 7, true).await;
                o.counts.push((name, 1));
                v.push(o);
            }
            v
        });
        r += n;
        for o in outs {
            report.absorb(o);
        }
    }
    report.floor("first_uses", 10_000);
    report.floor("first_uses_that_were_deletes", 5_000);
    report.floor("rounds_with_overlapping_first_use", 100);
    report.floor("first_uses_during_a_repair", 10_000);
    report.floor("keyspaces_synchronised_by_the_repair", 5_000);
    report.floor("keyspace_states_created_twice_during_repair", 50);
    report.floor("repair_rounds_with_failing_state_requests", 500);
    report.finish(args);
}

// ---------------------------------------------------------------------------
// C19
// ---------------------------------------------------------------------------

/// Builds the sender's state through real actor messages and, next to it, an
/// independent shadow set: the same operations applied to an OrSWotSet in the harness the
/// way the keyspace actor applies them (filter by will_apply, newest version per id,
/// stamp order). The shadow never passes through Serialize / GetState, so it is the
/// reference for what "the sender's state" is.
async fn c19_build<I: Backing>(node: &mut ActorNode<I>, ksn: &str, rng: &mut StdRng, entries: usize, origins: u8, hour_scale: bool, purge: bool) -> OrSWotSet<2> {
    let mut shadow = OrSWotSet::<2>::default();
    let ks = node.group.get_or_create_keyspace(ksn).await;
    let base = 80_000_000u64;
    let mut t = base;
    let mut batch: SmallVec<[Document; 4]> = SmallVec::new();
    for n in 0..entries {
        t += if hour_scale { rng.gen_range(1..40_000u64) * 4 } else { 4 };
        let stamp = ts(t, rng.gen_range(0..3), (n % origins as usize) as u8 + 2);
        let key = if rng.gen_bool(0.8) { n as u64 } else { rng.gen_range(0..(n as u64 + 1)) };
        let src = rng.gen_range(0..2usize);
        if rng.gen_bool(0.3) {
            let _ = ks.send(ecv::Del { source: src, doc: DocumentMetadata::new(key, stamp), _marker: PhantomData }).await;
            if shadow.will_apply(key, stamp) {
                shadow.delete_with_source(src, key, stamp);
            }
        } else if entries > 2000 {
            batch.push(doc(key, stamp));
            if batch.len() >= 200 {
                let docs = std::mem::take(&mut batch);
                shadow_multi_set(&mut shadow, src, &docs);
                let _ = ks.send(ecv::MultiSet { source: src, docs, ctx: None, _marker: PhantomData }).await;
            }
        } else {
            let _ = ks.send(ecv::Set { source: src, doc: doc(key, stamp), ctx: None, _marker: PhantomData }).await;
            if shadow.will_apply(key, stamp) {
                shadow.insert_with_source(src, key, stamp);
            }
        }
    }
    if !batch.is_empty() {
        shadow_multi_set(&mut shadow, 0, &batch);
        let _ = ks.send(ecv::MultiSet { source: 0, docs: batch, ctx: None, _marker: PhantomData }).await;
    }
    if purge {
        let _ = ks.send(ecv::PurgeDeletes(PhantomData)).await;
        shadow.purge_old_deletes();
    }
    shadow
}

fn shadow_multi_set(shadow: &mut OrSWotSet<2>, src: usize, docs: &[Document]) {
    let mut valid: Vec<(Key, HLCTimestamp)> = docs.iter().map(|d| (d.id(), d.last_updated())).filter(|(k, t)| shadow.will_apply(*k, *t)).collect();
    let mut newest: BTreeMap<Key, HLCTimestamp> = BTreeMap::new();
    for (k, t) in &valid {
        let e = newest.entry(*k).or_insert(*t);
        if *e < *t {
            *e = *t;
        }
    }
    valid.retain(|(k, t)| newest.get(k) == Some(t));
    valid.sort_by_key(|e| e.1);
    for (k, t) in valid {
        shadow.insert_with_source(src, k, t);
    }
}

fn equivalent(a: &OrSWotSet<2>, b: &OrSWotSet<2>, rng: &mut StdRng) -> Option<Value> {
    let (la, lb) = (enumerate(a), enumerate(b));
    if la != lb {
        let only_a: Vec<_> = la.0.iter().chain(la.1.iter()).filter(|e| !lb.0.contains(e) && !lb.1.contains(e)).take(5).map(|e| json!([e.0, ts_json(e.1)])).collect();
        return Some(json!({"listings_differ": {"sender_entries": la.0.len() + la.1.len(), "receiver_entries": lb.0.len() + lb.1.len(), "only_at_sender": only_a}}));
    }
    // accept/refuse decisions: stamps around a sample of those present, every origin seen
    let mut present: Vec<HLCTimestamp> = la.0.iter().chain(la.1.iter()).map(|e| e.1).collect();
    present.shuffle(rng);
    present.truncate(40);
    let origins: BTreeSet<u8> = la.0.iter().chain(la.1.iter()).map(|e| e.1.node()).collect();
    let mut origin_list: Vec<u8> = origins.into_iter().take(12).collect();
    origin_list.push(250);
    let stamps = probe_stamps(&present, &origin_list);
    let mut keys: Vec<u64> = la.0.iter().chain(la.1.iter()).map(|e| e.0).collect();
    keys.shuffle(rng);
    keys.truncate(12);
    keys.push(u64::MAX - 3);
    let (da, db) = (decision_probe(a, &keys, &stamps), decision_probe(b, &keys, &stamps));
    if da != db {
        let idx = da.iter().zip(db.iter()).position(|(x, y)| x != y).unwrap();
        return Some(json!({"decisions_differ": {"probe_index": idx, "key": keys[idx / stamps.len()], "stamp": ts_json(stamps[idx % stamps.len()]), "sender_would_apply": da[idx], "receiver_would_apply": db[idx]}}));
    }
    None
}

async fn c19_case(seed: u64, i: u64, entries: usize, tcp: bool) -> CaseOut {
    let mut out = CaseOut::default();
    let mut rng = rng_for(seed, 0xC19, i);
    let ctl = Ctl::new(1);
    let addr = if tcp { crate::rpc::free_tcp_addr() } else { scen_addr(19, i) };
    let origins: u8 = *[1u8, 2, 3, 16, 200].choose(&mut rng).unwrap();
    let hour_scale = rng.gen_bool(0.5);
    let purge = rng.gen_bool(0.4);
    let mut node = if tcp {
        // same services on a real loopback server (chunked bodies)
        let store = Arc::new(HStore::new(Arc::new(MemStore::default()), ctl.clone()));
        let clock = Clock::new(1);
        let group = ecv::KeyspaceGroup::new(store.clone(), clock.clone()).await;
        let server = match Server::listen(addr).await {
            Ok(s) => s,
            Err(e) => {
                out.inconclusive = Some(format!("cannot listen: {e}"));
                return out;
            },
        };
        server.add_service(ecv::ReplicationService::new(group.clone()));
        server.add_service(ecv::ConsistencyService::new(group.clone(), RpcNetwork::default()));
        let client = ecv::ConsistencyClient::new(Clock::new(101), Channel::connect(addr));
        ActorNode { store, ctl: ctl.clone(), group, clock, addr, server, client }
    } else {
        match ActorNode::start(Arc::new(MemStore::default()), ctl.clone(), addr, false).await {
            Ok(n) => n,
            Err(e) => {
                out.inconclusive = Some(e);
                return out;
            },
        }
    };
    let ksn = "state";
    if tcp {
        // let the group's purge task take its start-up tick before anything exists (it then sleeps for an hour)
        tokio::time::sleep(Duration::from_millis(60)).await;
    }
    let shadow = c19_build(&mut node, ksn, &mut rng, entries, origins, hour_scale, purge).await;
    let ks = node.group.get_or_create_keyspace(ksn).await;
    // the sender's state: the harness-side shadow set (never serialized), cross-checked with
    // what the sender's storage lists (C02: set == store)
    let mut sender = shadow;
    if tcp {
        // on the real-time runtime the group's own purge task (first tick at start-up) may have
        // run in the middle of the build: give the shadow the same purge if that explains it
        if let Ok(store) = store_listing(node.store.as_ref(), ksn).await {
            if store != enumerate(&sender) {
                let mut purged = sender.clone();
                purged.purge_old_deletes();
                if store == enumerate(&purged) {
                    sender = purged;
                }
            }
        }
    }
    let listing = enumerate(&sender);
    match store_listing(node.store.as_ref(), ksn).await {
        Ok(store) if store != listing => {
            let only_store: Vec<_> = store.0.iter().chain(store.1.iter()).filter(|e| !listing.0.contains(e) && !listing.1.contains(e)).take(3).collect();
            let only_shadow: Vec<_> = listing.0.iter().chain(listing.1.iter()).filter(|e| !store.0.contains(e) && !store.1.contains(e)).take(3).collect();
            out.inconclusive = Some(format!("harness shadow set and the sender's storage disagree (a C02 matter): no verdict for C19 on this state (entries={entries} origins={origins} hour_scale={hour_scale} purge={purge} only_store={only_store:?} only_shadow={only_shadow:?} sizes {}+{} vs {}+{})", store.0.len(), store.1.len(), listing.0.len(), listing.1.len()));
            return out;
        },
        Err(e) => {
            out.inconclusive = Some(e);
            return out;
        },
        _ => {},
    }
    match set_of(&ks).await {
        Ok(serialized) => {
            if let Some(diff) = equivalent(&sender, &serialized, &mut rng) {
                out.violate("C19:serialized-state-differs-from-the-senders-state", json!({"entries": entries, "difference": diff}));
            }
        },
        Err(e) => out.violate("C19:sender-could-not-serialize-its-state", json!(e)),
    }
    let mut rc = ecv::ReplicationClient::<HStore<MemStore>>::new(Clock::new(150), Channel::connect(addr));
    let got = std::panic::AssertUnwindSafe(rc.get_state(ksn));
    let got = futures::FutureExt::catch_unwind(got).await;
    out.count("states_fetched", 1);
    out.count("entries_in_fetched_states", (listing.0.len() + listing.1.len()) as u64);
    out.counts.push((if tcp { "fetched_over_tcp" } else { "fetched_in_memory" }, 1));
    if listing.0.len() + listing.1.len() >= 100_000 {
        out.count("states_of_more_than_100000_entries_fetched", 1);
    }
    let desc = json!({"entries_requested": entries, "live": listing.0.len(), "tombstones": listing.1.len(), "origins": origins, "hour_scale": hour_scale, "purged": purge, "transport": if tcp { "tcp" } else { "in-memory" }});
    match got {
        Err(_) => out.violate("C19:get_state-panicked", desc.clone()),
        Ok(Err(e)) => out.violate("C19:get_state-failed-on-intact-reply", json!({"case": desc, "error": format!("{e:?}")})),
        Ok(Ok((_last, received))) => {
            if let Some(diff) = equivalent(&sender, &received, &mut rng) {
                let what = if diff.get("listings_differ").is_some() { "received-state-lists-different-entries" } else { "received-state-decides-differently" };
                out.violate(format!("C19:{what}"), json!({"case": desc, "difference": diff}));
            }
        },
    }
    // "at the moment it answered": the same peer asks again after the sender's state changed WITHOUT a
    // put or delete (a purge), and once more after a further put - each answer must be the state of its moment
    if out.violations.is_empty() {
        let ks = node.group.get_or_create_keyspace(ksn).await;
        let _ = ks.send(ecv::PurgeDeletes(PhantomData)).await;
        let before = enumerate(&sender).1.len();
        sender.purge_old_deletes();
        out.count("tombstones_purged_between_two_fetches", (before - enumerate(&sender).1.len()) as u64);
        for step in ["after-a-purge", "after-a-further-put"] {
            if step == "after-a-further-put" {
                let t = ts(4_000_000_000, 7, 250);
                let _ = ks.send(ecv::Set { source: 0, doc: doc(u64::MAX - 77, t), ctx: None, _marker: PhantomData }).await;
                sender.insert_with_source(0, u64::MAX - 77, t);
            }
            let again = futures::FutureExt::catch_unwind(std::panic::AssertUnwindSafe(rc.get_state(ksn))).await;
            out.count("states_fetched_again", 1);
            match again {
                Err(_) => out.violate("C19:get_state-panicked", desc.clone()),
                Ok(Err(e)) => out.violate("C19:get_state-failed-on-intact-reply", json!({"case": desc, "error": format!("{e:?}"), "fetch": step})),
                Ok(Ok((_last, received))) => {
                    if let Some(diff) = equivalent(&sender, &received, &mut rng) {
                        out.violate(format!("C19:state-fetched-again-is-not-the-senders-state-of-that-moment:{step}"), json!({"case": desc, "difference": diff}));
                    }
                },
            }
        }
    }
    out.nontrivial = Some(hash_of(&(listing.0.len(), listing.1.len(), origins, hour_scale, purge, tcp)));
    // corrupted replies must be errors, never states (in-memory transport only)
    if !tcp {
        let reply_bits = 8 * (64 + 24 * (listing.0.len() + listing.1.len())).min(4096);
        let bits: Vec<usize> = if entries <= 3 { (0..reply_bits).collect() } else { (0..24).map(|_| rng.gen_range(0..reply_bits * 4)).collect() };
        let cur = Arc::new(std::sync::atomic::AtomicUsize::new(0));
        let c2 = cur.clone();
        datacake_rpc::verif::set_policy(
            addr,
            Some(Arc::new(move |m: datacake_rpc::verif::MsgInfo| {
                let b = c2.load(Ordering::SeqCst);
                Box::pin(async move {
                    if m.uri.contains("GetState") {
                        datacake_rpc::verif::Verdict::CorruptReply(b)
                    } else {
                        datacake_rpc::verif::Verdict::Deliver
                    }
                })
            })),
        );
        for b in bits {
            cur.store(b, Ordering::SeqCst);
            let r = futures::FutureExt::catch_unwind(std::panic::AssertUnwindSafe(rc.get_state(ksn))).await;
            out.count("corrupted_state_replies", 1);
            match r {
                Err(_) => out.violate("C19:get_state-panicked-on-corrupted-reply", json!({"case": desc, "bit": b})),
                Ok(Ok(_)) => out.violate("C19:corrupted-state-reply-was-used", json!({"case": desc, "bit": b})),
                Ok(Err(_)) => {},
            }
        }
        datacake_rpc::verif::set_policy(addr, None);
    }
    if !out.violations.is_empty() {
        out.replay = Some(json!({"seed": seed, "index": i, "entries": entries, "tcp": tcp}));
    }
    if i == 2 {
        out.sample = Some(desc);
    }
    if tcp {
        node.server.shutdown();
    } else {
        node.stop();
    }
    out
}

pub fn c19_sizes(tier: Tier) -> Vec<usize> {
    let mut v: Vec<usize> = vec![0, 1, 2, 3, 4, 5, 7, 8, 9, 15, 16, 17, 31, 32, 33, 63, 64, 65, 100, 127, 128, 129, 255, 256, 257, 511, 512, 513, 1000, 1023, 1024, 1025, 2047, 2048, 2049, 4096, 5000];
    if tier == Tier::Thorough {
        v.extend([8191, 8192, 8193, 12_000, 16_384, 20_000]);
    } else {
        v.push(20_000);
    }
    v
}

/// A state fetched WHILE the keyspace is being written. A single writer applies documents one after
/// the other over slow storage and notes the keyspace's change stamp after each; a peer keeps fetching.
/// Each answer (change stamp L, state S) must be a state of some moment: every document whose change
/// stamp is <= L is in S (the stamp is what the poller records as "synchronised up to").
async fn c19_concurrent_case(seed: u64, i: u64) -> CaseOut {
    let mut out = CaseOut::default();
    let mut rng = rng_for(seed, 0xC19_C0C, i);
    let ctl = Ctl::new(1);
    let addr = scen_addr(49, i);
    let node = match ActorNode::start(Arc::new(MemStore::default()), ctl.clone(), addr, false).await {
        Ok(n) => n,
        Err(e) => {
            out.inconclusive = Some(e);
            return out;
        },
    };
    let ksn = "written-while-fetched";
    let ks = node.group.get_or_create_keyspace(ksn).await;
    ctl.slow_ms.store(*[0i64, 1, 3, 10].choose(&mut rng).unwrap(), Ordering::SeqCst);
    let n_docs = rng.gen_range(5..40u64);
    let base = 80_000_000u64;
    let done = Arc::new(std::sync::atomic::AtomicBool::new(false));
    let writer = {
        let (ks, done) = (ks.clone(), done.clone());
        let pauses: Vec<u64> = (0..n_docs).map(|_| rng.gen_range(0..4)).collect();
        tokio::spawn(async move {
            // (document id, its stamp, the keyspace's change stamp once the write was acknowledged)
            let mut log: Vec<(Key, HLCTimestamp, HLCTimestamp)> = Vec::new();
            for k in 0..n_docs {
                let stamp = ts(base + k * 8, 0, 9);
                if ks.send(ecv::Set { source: 0, doc: doc(k, stamp), ctx: None, _marker: PhantomData }).await.is_err() {
                    break;
                }
                let changed = ks.send(ecv::LastUpdated).await;
                log.push((k, stamp, changed));
                if pauses[k as usize] > 0 {
                    tokio::time::sleep(Duration::from_millis(pauses[k as usize])).await;
                }
            }
            done.store(true, Ordering::SeqCst);
            log
        })
    };
    let mut rc = ecv::ReplicationClient::<HStore<MemStore>>::new(Clock::new(151), Channel::connect(addr));
    let mut answers: Vec<(HLCTimestamp, Listing)> = Vec::new();
    while !done.load(Ordering::SeqCst) && answers.len() < 400 {
        match rc.get_state(ksn).await {
            Ok((last_updated, set)) => answers.push((last_updated, enumerate(&set))),
            Err(e) => {
                out.violate("C19:get_state-failed-on-intact-reply", json!({"error": format!("{e:?}"), "while": "the keyspace was being written"}));
                break;
            },
        }
        tokio::time::sleep(Duration::from_millis(rng.gen_range(0..3))).await;
    }
    let log = writer.await.unwrap_or_default();
    out.count("states_fetched_while_the_keyspace_was_written", answers.len() as u64);
    out.nontrivial = Some(hash_of(&("concurrent", i, answers.len())));
    'answers: for (n, (l, listing)) in answers.iter().enumerate() {
        for (id, stamp, changed) in &log {
            if changed <= l && !listing.0.contains(&(*id, *stamp)) {
                out.violate(
                    "C19:state-older-than-the-change-stamp-it-travels-with",
                    json!({"answer_no": n, "change_stamp_of_the_answer": ts_json(*l), "missing_document": [id, ts_json(*stamp)], "keyspace_change_stamp_after_that_write": ts_json(*changed),
                        "documents_in_the_answer": listing.0.len(), "documents_written_in_all": log.len()}),
                );
                break 'answers;
            }
        }
    }
    if !out.violations.is_empty() {
        out.replay = Some(json!({"mode": "concurrent", "seed": seed, "index": i}));
    }
    node.stop();
    out
}

pub fn c19(args: &Args) {
    let mut report = Report::new(
        args,
        "E1-actor",
        "keyspace states built through real actor messages (both sources, 1..200 origins, inserts and deletes, hour-scale or dense stamps, optional purge): empty, tombstone-heavy, sizes straddling every power of two up to 20 000 entries, and over real TCP one state of 150 000 entries (thorough: also 400 000) whose serialized form is larger than 2 MiB. The sender's state = an independent shadow OrSWotSet kept by the harness (same operations applied the way the actor applies them; never serialized; cross-checked against the sender's storage listing) is compared with the actor's Serialize reply and with what ReplicationClient::get_state returns over the in-memory transport and, for a sample, over real loopback HTTP/2 (chunked bodies): same listing of live ids / tombstones / stamps and the same will_apply decisions on a battery of probes (keys present and absent x stamps around present stamps and cut-offs x origins). For small replies EVERY bit, for large ones random bits of the reply are corrupted in transit: the result must be Err, never a state, never a panic. The debug build keeps rustc's misaligned-dereference checks on for all sizes. Non-trivial: every state; distinct = distinct (live, tombstones, origins, spread, purge, transport).",
    );
    if let Some(path) = &args.replay {
        let r = read_replay(path);
        if r["mode"] == "concurrent" {
            report.absorb(block_on_paused(c19_concurrent_case(r["seed"].as_u64().unwrap(), r["index"].as_u64().unwrap())));
            report.finish(args);
            return;
        }
        let tcp = r["tcp"].as_bool().unwrap_or(false);
        let fut = c19_case(r["seed"].as_u64().unwrap(), r["index"].as_u64().unwrap(), r["entries"].as_u64().unwrap() as usize, tcp);
        let out = if tcp { block_on_real(2, fut) } else { block_on_paused(fut) };
        report.absorb(out);
        report.finish(args);
        return;
    }
    if std::env::var("MON_PANIC_MSGS").is_err() {
        std::panic::set_hook(Box::new(|_| {}));
    }
    let seed = args.seed;
    let sizes = c19_sizes(args.tier);
    let reps = args.pick(12, 120);
    let n = sizes.len() as u64 * reps;
    // The cases run in child processes: a misaligned or out-of-bounds access in the
    // unchecked decode aborts the process in a debug build (rustc's runtime checks do
    // not unwind) or simply crashes it; the parent turns that into a violation naming
    // the case the child was working on.
    let exe = std::env::current_exe().expect("own path");
    let dir = scratch_dir("c19");
    let workers = args.threads.max(1) as u64;
    let per = (n + workers - 1) / workers;
    let tier = if args.tier == Tier::Quick { "quick" } else { "thorough" };
    let results: Vec<(Vec<Value>, Vec<Violation>, Vec<String>)> = std::thread::scope(|sc| {
        let mut hs = Vec::new();
        for w in 0..workers {
            let (exe, dir) = (exe.clone(), dir.clone());
            hs.push(sc.spawn(move || {
                let (mut from, to) = (w * per, ((w + 1) * per).min(n));
                let (mut reports, mut viols, mut notes) = (Vec::new(), Vec::new(), Vec::new());
                let mut crashes = 0;
                while from < to {
                    let progress = dir.join(format!("progress-{w}"));
                    let out = dir.join(format!("out-{w}-{from}.json"));
                    let _ = std::fs::remove_file(&progress);
                    let status = std::process::Command::new(&exe)
                        .arg("C19-batch")
                        .args(["--seed", &seed.to_string(), "--tier", tier, "--from", &from.to_string(), "--to", &to.to_string()])
                        .arg("--progress")
                        .arg(&progress)
                        .arg("--out")
                        .arg(&out)
                        .stderr(std::process::Stdio::null())
                        .status();
                    if matches!(&status, Ok(st) if st.success()) && out.exists() {
                        reports.push(serde_json::from_slice(&std::fs::read(&out).unwrap()).unwrap_or(Value::Null));
                        break;
                    }
                    let text = std::fs::read_to_string(&progress).unwrap_or_default();
                    let parts: Vec<&str> = text.split_whitespace().collect();
                    crashes += 1;
                    if parts.len() < 2 || crashes > 40 {
                        notes.push(format!("C19 child {w} failed ({status:?}) without usable progress information"));
                        break;
                    }
                    let idx: u64 = parts[0].parse().unwrap_or(from);
                    viols.push(Violation {
                        signature: "C19:process-crashed-while-fetching-a-state".into(),
                        detail: json!({"case_index": idx, "entries": parts[1], "child_status": format!("{status:?}"), "build": if cfg!(debug_assertions) { "debug" } else { "release" }}),
                    });
                    from = idx + 1;
                }
                (reports, viols, notes)
            }));
        }
        hs.into_iter().map(|h| h.join().unwrap()).collect()
    });
    for (reports, viols, notes) in results {
        for r in reports {
            report.merge_child(&r);
        }
        for v in viols {
            report.add_violation(v, Some(json!({"note": "re-run ./check C19; the crash is deterministic for a given build"})));
        }
        report.run_inconclusive.extend(notes);
    }
    let _ = std::fs::remove_dir_all(&dir);
    // states fetched while the keyspace is being written
    let n_conc = args.pick(4_000, 200_000);
    run_cases(&mut report, n_conc, args.threads, Duration::from_secs(args.pick(60, 900)), |i| block_on_paused(c19_concurrent_case(seed, i)));
    report.floor("states_fetched_while_the_keyspace_was_written", 20_000);
    // sample over real TCP
    // (the last ones are states whose serialized form exceeds 2 MiB / 6 MiB: "for states of any size")
    let tcp_sizes: Vec<usize> = if args.tier == Tier::Quick { vec![0, 1, 17, 300, 1024, 5000, 20_000, 150_000] } else { vec![0, 1, 17, 300, 1024, 5000, 20_000, 150_000, 400_000] };
    let outs = block_on_real(4, async move {
        let mut v = Vec::new();
        for (k, e) in tcp_sizes.iter().enumerate() {
            v.push(c19_case(seed, 1_000_000 + k as u64, *e, true).await);
        }
        v
    });
    for o in outs {
        report.absorb(o);
    }
    let _ = std::panic::take_hook();
    report.floor("states_fetched", 100);
    report.floor("corrupted_state_replies", 1_000);
    report.floor("fetched_over_tcp", 5);
    report.floor("states_of_more_than_100000_entries_fetched", 1);
    report.finish(args);
}

/// Child entry point: `mon C19-batch --from A --to B --progress P --out O`.
pub fn c19_batch(args: &Args) {
    if std::env::var("MON_PANIC_MSGS").is_err() {
        std::panic::set_hook(Box::new(|_| {}));
    }
    let mut report = Report::new(args, "E1-actor-c19-child", "child");
    let sizes = c19_sizes(args.tier);
    let (from, to) = (args.opt_u64("from", 0), args.opt_u64("to", 0));
    let progress = args.opt_str("progress").map(std::path::PathBuf::from);
    for i in from..to {
        let entries = sizes[(i % sizes.len() as u64) as usize];
        if let Some(p) = &progress {
            let _ = std::fs::write(p, format!("{i} {entries}"));
        }
        report.absorb(block_on_paused(c19_case(args.seed, i, entries, false)));
    }
    report.finish(args);
}
