//! Engine E7a: programs for Miri (`cargo +nightly miri run -p mirirun -- <what> [args]`),
//! flags: -Zmiri-tree-borrows -Zmiri-disable-isolation (see DESIGN.md §8).
//! Prints one line `MIRI-REPORT {json}`; Miri itself reports undefined behaviour
//! (out-of-bounds, misaligned or dangling access, invalid values, data races) by
//! aborting the run with an "Undefined Behavior" error the driver looks for.
use std::marker::PhantomData;
use std::net::SocketAddr;
use std::sync::Arc;
use std::time::Duration;

use datacake_crdt::{HLCTimestamp, OrSWotSet};
use datacake_eventual_consistency::test_utils::MemStore;
use datacake_eventual_consistency::verif as ecv;
use datacake_eventual_consistency::{Document, DocumentMetadata};
use datacake_node::{Clock, RpcNetwork};
use datacake_rpc::{Channel, DataView, Server};
use rkyv::{AlignedVec, Archive, Deserialize, Serialize};

struct Lcg(u64);
impl Lcg {
    fn next(&mut self) -> u64 {
        self.0 = self.0.wrapping_mul(6364136223846793005).wrapping_add(1442695040888963407);
        self.0 >> 33
    }
    fn below(&mut self, n: u64) -> u64 {
        self.next() % n.max(1)
    }
}

fn crc32(b: &[u8]) -> u32 {
    let mut c: u32 = !0;
    for &x in b {
        c ^= x as u32;
        for _ in 0..8 {
            c = if c & 1 != 0 { (c >> 1) ^ 0xEDB8_8320 } else { c >> 1 };
        }
    }
    !c
}

fn aligned(b: &[u8]) -> AlignedVec {
    let mut v = AlignedVec::with_capacity(b.len().max(1));
    v.extend_from_slice(b);
    v
}

fn ts(ms: u64, c: u16, n: u8) -> HLCTimestamp {
    HLCTimestamp::new(Duration::from_millis(ms), c, n)
}

// ------------------------------------------------------------------ C12

#[repr(C)]
#[derive(Serialize, Deserialize, Archive, PartialEq, Debug, Clone)]
#[archive(check_bytes)]
pub struct Fixed {
    a: u32,
    b: u64,
    c: [u8; 12],
}

#[repr(C)]
#[derive(Serialize, Deserialize, Archive, PartialEq, Debug, Clone)]
#[archive(check_bytes)]
pub struct Mixed {
    name: String,
    age: u32,
    tags: Vec<String>,
    blob: Vec<u8>,
    opt: Option<u64>,
}

fn must_refuse<T: Archive>(frame: &[u8]) -> bool {
    if frame.len() < 4 {
        return true;
    }
    let (body, tr) = frame.split_at(frame.len() - 4);
    u32::from_le_bytes(tr.try_into().unwrap()) != crc32(body) || body.len() < std::mem::size_of::<T::Archived>()
}

/// frames built with rkyv's stock serializer + trailer (datacake's inline stack
/// scratch serializer is an unrelated Miri finding, see DESIGN.md §6)
fn frame_of<T: Serialize<rkyv::ser::serializers::AllocSerializer<256>>>(v: &T) -> Vec<u8> {
    let mut f = rkyv::to_bytes::<_, 256>(v).unwrap().to_vec();
    let c = crc32(&f);
    f.extend_from_slice(&c.to_le_bytes());
    f
}

fn c12(stride: usize) -> (u64, u64, u64, Vec<String>) {
    let mut problems = Vec::new();
    let (mut frames, mut refused, mut accepted) = (0u64, 0u64, 0u64);
    let fixed = Fixed { a: 7, b: 99, c: [3; 12] };
    let mixed = Mixed { name: "hello".into(), age: 5, tags: vec!["a".into(), "bc".into()], blob: vec![1, 2, 3], opt: Some(9) };
    macro_rules! family {
        ($ty:ty, $frame:expr, $touch:expr) => {{
            let frame: Vec<u8> = $frame;
            let mut muts: Vec<Vec<u8>> = Vec::new();
            muts.push(frame.clone());
            for i in (0..frame.len() * 8).step_by(stride) {
                let mut f = frame.clone();
                f[i / 8] ^= 1 << (i % 8);
                muts.push(f);
            }
            for l in 0..frame.len() {
                muts.push(frame[..l].to_vec());
            }
            for e in 1..=4usize {
                let mut f = frame.clone();
                f.extend(std::iter::repeat(0u8).take(e));
                muts.push(f);
            }
            muts.push(vec![0; 4]);
            for l in [0usize, 1, 3, 4, 8, 15] {
                let body: Vec<u8> = (0..l as u8).collect();
                if body.len() < std::mem::size_of::<<$ty as Archive>::Archived>() {
                    let mut f = body.clone();
                    f.extend_from_slice(&crc32(&body).to_le_bytes());
                    muts.push(f);
                }
            }
            for (k, m) in muts.iter().enumerate() {
                frames += 1;
                let mr = must_refuse::<$ty>(m);
                match DataView::<$ty>::using(aligned(m)) {
                    Ok(v) => {
                        accepted += 1;
                        if mr {
                            problems.push(format!("{} mutant {} (len {}) accepted although it must be refused", stringify!($ty), k, m.len()));
                        } else {
                            // dereference every field of an accepted (valid) frame
                            let _ = $touch(&v);
                        }
                    },
                    Err(_) => {
                        refused += 1;
                        if !mr {
                            problems.push(format!("{} valid frame refused", stringify!($ty)));
                        }
                    },
                }
            }
        }};
    }
    family!(Fixed, frame_of(&fixed), |v: &DataView<Fixed>| v.a.value() as u64 + v.b.value() + v.c[11] as u64);
    family!(Mixed, frame_of(&mixed), |v: &DataView<Mixed>| v.name.len() as u64
        + v.age.value() as u64
        + v.tags.iter().map(|t| t.len() as u64).sum::<u64>()
        + v.blob.iter().map(|b| *b as u64).sum::<u64>()
        + v.opt.as_ref().map(|x| x.value()).unwrap_or(0));
    (frames, refused, accepted, problems)
}

// ------------------------------------------------------------------ C19

fn listing(s: &OrSWotSet<2>) -> (Vec<(u64, HLCTimestamp)>, Vec<(u64, HLCTimestamp)>) {
    let (mut a, mut b) = OrSWotSet::<2>::default().diff(s);
    a.sort();
    b.sort();
    (a, b)
}

async fn c19_one(entries: usize, seed: u64) -> Result<(usize, usize), String> {
    let mut rng = Lcg(seed ^ 0xC19);
    let addr = SocketAddr::from(([10, 19, (entries >> 8) as u8, entries as u8], 19));
    let store = Arc::new(MemStore::default());
    let clock = Clock::new(1);
    let group = ecv::KeyspaceGroup::new(store.clone(), clock.clone()).await;
    let server = Server::verif_in_memory(addr);
    server.add_service(ecv::ReplicationService::new(group.clone()));
    server.add_service(ecv::ConsistencyService::new(group.clone(), RpcNetwork::default()));
    let ks = group.get_or_create_keyspace("state").await;
    let mut t = 80_000_000u64;
    for n in 0..entries {
        t += 4 + rng.below(30_000) * 4;
        let stamp = ts(t, rng.below(3) as u16, (n % 5) as u8 + 2);
        let key = if rng.below(10) < 8 { n as u64 } else { rng.below(n as u64 + 1) };
        let src = rng.below(2) as usize;
        // single-document actor messages only (no RPC serialisation of multi-document payloads under Miri)
        if rng.below(10) < 3 {
            let _ = ks.send(ecv::Del { source: src, doc: DocumentMetadata::new(key, stamp), _marker: PhantomData::<MemStore> }).await;
        } else {
            let _ = ks.send(ecv::Set { source: src, doc: Document::new(key, stamp, vec![n as u8]), ctx: None, _marker: PhantomData::<MemStore> }).await;
        }
    }
    if rng.below(2) == 0 {
        let _ = ks.send(ecv::PurgeDeletes(PhantomData::<MemStore>)).await;
    }
    let bytes = ks.send(ecv::Serialize).await.map_err(|e| e.to_string())?;
    let sender = OrSWotSet::<2>::from_bytes(&aligned(&bytes)).map_err(|e| e.to_string())?;
    let mut rc = ecv::ReplicationClient::<MemStore>::new(Clock::new(150), Channel::connect(addr));
    let (_last, received) = rc.get_state("state").await.map_err(|e| format!("get_state failed: {e:?}"))?;
    let (ls, lr) = (listing(&sender), listing(&received));
    datacake_rpc::verif::unregister(addr);
    if ls != lr {
        return Err(format!("entries={entries}: received state lists different entries ({} vs {})", ls.0.len() + ls.1.len(), lr.0.len() + lr.1.len()));
    }
    // accept/refuse decisions around present stamps
    for (k, st) in ls.0.iter().chain(ls.1.iter()).take(25) {
        let ms = st.datacake_timestamp().as_millis() as u64;
        for d in [0i64, -4, 4, -3_600_000, -3_600_004] {
            let m = (ms as i64 + d).max(0) as u64;
            for node in [st.node(), 250] {
                let probe = ts(m, st.counter(), node);
                for key in [*k, u64::MAX - 1] {
                    if sender.will_apply(key, probe) != received.will_apply(key, probe) {
                        return Err(format!("entries={entries}: will_apply({key}, {probe}) differs between sender and receiver"));
                    }
                }
            }
        }
    }
    Ok((ls.0.len(), ls.1.len()))
}

// ------------------------------------------------------------------ C03

fn c03(n: u64, seed: u64) -> (u64, Vec<String>) {
    let mut rng = Lcg(seed ^ 0xC03);
    let mut problems = Vec::new();
    for i in 0..n {
        // one-window regime: stamps within 3500 s, arbitrary subsets and orders, two sources
        let ops: Vec<(u64, HLCTimestamp, bool)> = (0..8).map(|j| (rng.below(3), ts(50_000_000 + rng.below(800_000) * 4 + j, 0, rng.below(3) as u8), rng.below(10) < 4)).collect();
        let build = |rng: &mut Lcg| {
            let mut s = OrSWotSet::<2>::default();
            let mut order: Vec<usize> = (0..ops.len()).filter(|_| rng.below(10) < 6).collect();
            for k in (1..order.len()).rev() {
                order.swap(k, rng.below(k as u64 + 1) as usize);
            }
            for k in order {
                let (key, t, del) = ops[k];
                let src = rng.below(2) as usize;
                if del {
                    s.delete_with_source(src, key, t);
                } else {
                    s.insert_with_source(src, key, t);
                }
            }
            s
        };
        let (a, b, c) = (build(&mut rng), build(&mut rng), build(&mut rng));
        let live = |s: &OrSWotSet<2>| (0..3u64).map(|k| s.get(&k).copied()).collect::<Vec<_>>();
        let m = |x: &OrSWotSet<2>, y: &OrSWotSet<2>| {
            let mut z = x.clone();
            z.merge(y.clone());
            z
        };
        let (ab, ba) = (m(&a, &b), m(&b, &a));
        if live(&ab) != live(&ba) {
            problems.push(format!("triple {i}: commutativity"));
        }
        if live(&m(&ab, &c)) != live(&m(&a, &m(&b, &c))) {
            problems.push(format!("triple {i}: associativity"));
        }
        if listing(&m(&ab, &b)) != listing(&ab) {
            problems.push(format!("triple {i}: idempotence"));
        }
        // the archived form round-trips (validated decode)
        let bytes = ab.as_bytes().unwrap();
        let back = OrSWotSet::<2>::from_bytes(&aligned(&bytes)).unwrap();
        if listing(&back) != listing(&ab) {
            problems.push(format!("triple {i}: archive round trip"));
        }
    }
    (n, problems)
}

fn main() {
    let args: Vec<String> = std::env::args().collect();
    let what = args.get(1).map(|s| s.as_str()).unwrap_or("");
    let seed: u64 = args.get(3).and_then(|s| s.parse().ok()).unwrap_or(1);
    match what {
        "c12" => {
            let stride: usize = args.get(2).and_then(|s| s.parse().ok()).unwrap_or(7);
            let (frames, refused, accepted, problems) = c12(stride);
            println!("MIRI-REPORT {{\"what\":\"c12\",\"frames\":{frames},\"refused\":{refused},\"accepted\":{accepted},\"problems\":{:?}}}", problems);
        },
        "c19" => {
            let sizes: Vec<usize> = args.get(2).map(|s| s.split(',').filter_map(|x| x.parse().ok()).collect()).unwrap_or_else(|| vec![0, 1, 3]);
            let rt = tokio::runtime::Builder::new_current_thread().enable_all().start_paused(true).build().unwrap();
            let mut problems = Vec::new();
            let mut done = Vec::new();
            for e in &sizes {
                match rt.block_on(c19_one(*e, seed)) {
                    Ok((l, d)) => done.push(format!("{e}:{l}+{d}")),
                    Err(p) => problems.push(p),
                }
            }
            println!("MIRI-REPORT {{\"what\":\"c19\",\"states\":{},\"sizes\":{:?},\"problems\":{:?}}}", done.len(), done, problems);
        },
        "c03" => {
            let n: u64 = args.get(2).and_then(|s| s.parse().ok()).unwrap_or(50);
            let (n, problems) = c03(n, seed);
            println!("MIRI-REPORT {{\"what\":\"c03\",\"triples\":{n},\"problems\":{:?}}}", problems);
        },
        _ => {
            eprintln!("usage: mirirun c12 <bit-stride> | c19 <sizes,comma> [seed] | c03 <triples> [seed]");
            std::process::exit(2);
        },
    }
}
