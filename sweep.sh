#!/bin/bash
# Runs the registered checks one after the other and prints one line per check (used for multi-seed /
# thorough-tier sweeps on the unchanged tree; every line must say exit=0).
#   ./sweep.sh <quick|thorough> <seed> [Cxx ...]
tier=${1:-quick}; seed=${2:-1}; shift 2
props=${@:-C01 C02 C03 C04 C05 C06 C07 C08 C09 C10 C11 C12 C13 C14 C15 C16 C17 C18 C19}
cd "$(dirname "$0")"
for p in $props; do
  s=$(date +%s)
  ./check $p --tier $tier --seed $seed > sweep-$p-$tier-$seed.log 2>&1
  rc=$?
  echo "$p tier=$tier seed=$seed exit=$rc $(( $(date +%s)-s ))s $(grep -c '^VIOLATION' sweep-$p-$tier-$seed.log) violation lines; $(grep -m1 '^INCONCLUSIVE' sweep-$p-$tier-$seed.log)"
done
