#!/usr/bin/env python3-vt
"""Validates MANIFEST.json and every evidence file against the schemas in /root/.vp."""
import json, sys, glob, jsonschema
ok = True
def check(path, schema):
    global ok
    try:
        jsonschema.validate(json.load(open(path)), json.load(open(schema)))
        print("valid  ", path)
    except Exception as e:
        ok = False
        print("INVALID", path, str(e)[:300])
check("/verif/MANIFEST.json", "/root/.vp/MANIFEST.schema.json")
for f in sorted(glob.glob("/verif/evidence/*.json")):
    check(f, "/root/.vp/EVIDENCE.schema.json")
sys.exit(0 if ok else 1)
