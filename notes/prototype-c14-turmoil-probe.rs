use std::collections::BTreeMap;
use std::net::{IpAddr, Ipv4Addr, SocketAddr};
use std::sync::{Arc, Mutex};
use std::time::Duration;
use datacake_rpc::*;
use rand::prelude::*;
use rkyv::{Archive, Deserialize, Serialize};
use turmoil::Builder;

const PORT: u16 = 9999;
#[repr(C)]
#[derive(Serialize, Deserialize, Archive, Debug)]
#[archive(check_bytes)]
pub struct Req { id: u64, delay_ms: u32, reply_len: u32 }
#[repr(C)]
#[derive(Serialize, Deserialize, Archive, Debug)]
#[archive(check_bytes)]
pub struct Rep { id: u64, payload: Vec<u8> }
fn payload(id: u64, len: u32) -> Vec<u8> { (0..len).map(|i| (id as u32).wrapping_mul(31).wrapping_add(i) as u8).collect() }

#[derive(Clone)]
pub struct Svc { calls: Arc<Mutex<BTreeMap<u64, u32>>> }
impl RpcService for Svc { fn register_handlers(r: &mut ServiceRegistry<Self>) { r.add_handler::<Req>(); } }
#[async_trait]
impl Handler<Req> for Svc {
    type Reply = Rep;
    async fn on_message(&self, m: Request<Req>) -> Result<Rep, Status> {
        let (id, d, l) = (m.id, m.delay_ms, m.reply_len);
        *self.calls.lock().unwrap().entry(id).or_default() += 1;
        if d > 0 { tokio::time::sleep(Duration::from_millis(d as u64)).await; }
        Ok(Rep { id, payload: payload(id, l) })
    }
}

fn run(seed: u64) -> (Vec<String>, BTreeMap<String, u32>) {
    let mut rng = StdRng::seed_from_u64(seed);
    let mut sim = Builder::new().simulation_duration(Duration::from_secs(120)).build_with_rng(Box::new(StdRng::seed_from_u64(seed ^ 77)));
    let calls: Arc<Mutex<BTreeMap<u64, u32>>> = Default::default();
    let c2 = calls.clone();
    sim.host("server", move || { let c = c2.clone(); async move {
        let server = Server::listen(SocketAddr::new(IpAddr::V4(Ipv4Addr::UNSPECIFIED), PORT)).await?;
        server.add_service(Svc { calls: c });
        tokio::time::sleep(Duration::from_secs(1000)).await; Ok(())
    }});
    // nemesis script
    let nscript: Vec<(u64, u8)> = (0..rng.gen_range(0..8)).map(|_| (rng.gen_range(0..1500), rng.gen_range(0..4))).collect();
    sim.client("nemesis", async move {
        for (wait, act) in nscript {
            tokio::time::sleep(Duration::from_millis(wait)).await;
            match act { 0 => turmoil::partition("client", "server"), 1 => turmoil::repair("client", "server"), 2 => turmoil::hold("client", "server"), _ => turmoil::release("client", "server") }
        }
        tokio::time::sleep(Duration::from_millis(500)).await;
        turmoil::repair("client", "server"); turmoil::release("client", "server");
        Ok(())
    });
    let problems: Arc<Mutex<Vec<String>>> = Default::default();
    let stats: Arc<Mutex<BTreeMap<String, u32>>> = Default::default();
    let (p2, s2) = (problems.clone(), stats.clone());
    let nreq = rng.gen_range(3..15u64);
    let plan: Vec<(u64, u32, u32, u64, bool)> = (0..nreq).map(|i| (i, *[0u32, 0, 50, 800, 2500].choose(&mut rng).unwrap(), *[8u32, 16, 48, 100].choose(&mut rng).unwrap(), rng.gen_range(0..600), rng.gen_bool(0.4))).collect();
    let timeout = Duration::from_secs(2);
    sim.client("client", async move {
        let ch = Channel::connect(SocketAddr::new(turmoil::lookup("server"), PORT));
        let mut client = RpcClient::<Svc>::new(ch);
        client.set_timeout(timeout);
        let mut tasks = vec![];
        let connected = Arc::new(std::sync::atomic::AtomicBool::new(false));
        for (id, d, l, gap, conc) in plan {
            let conc = conc && connected.load(std::sync::atomic::Ordering::Relaxed);
            let connected2 = connected.clone();
            let c = client.clone(); let (p, s) = (p2.clone(), s2.clone());
            let fut = async move {
                let t0 = tokio::time::Instant::now();
                let r = c.send(&Req { id, delay_ms: d, reply_len: l }).await;
                let el = t0.elapsed();
                if el > timeout + Duration::from_millis(50) { p.lock().unwrap().push(format!("req {id} took {el:?}")); }
                match r {
                    Ok(rep) => { connected2.store(true, std::sync::atomic::Ordering::Relaxed); *s.lock().unwrap().entry("ok".into()).or_default() += 1; if rep.id != id || rep.payload.as_slice() != payload(id, l).as_slice() { p.lock().unwrap().push(format!("req {id}: wrong reply id={} len={}", rep.id, rep.payload.len())); } },
                    Err(e) => { *s.lock().unwrap().entry(format!("{:?}", e.code)).or_default() += 1; if !matches!(e.code, ErrorCode::ConnectionError | ErrorCode::Timeout) { p.lock().unwrap().push(format!("req {id}: error code {:?}: {}", e.code, e.message)); } },
                }
            };
            if conc { tasks.push(tokio::spawn(fut)); } else { fut.await; }
            tokio::time::sleep(Duration::from_millis(gap)).await;
        }
        for t in tasks { let _ = t.await; }
        Ok(())
    });
    let r = sim.run();
    if let Err(e) = r { problems.lock().unwrap().push(format!("sim error: {e}")); }
    for (id, n) in calls.lock().unwrap().iter() { if *n > 1 { problems.lock().unwrap().push(format!("req {id} executed {n} times")); } }
    let p = problems.lock().unwrap().clone(); let s = stats.lock().unwrap().clone(); (p, s)
}

fn main() {
    std::panic::set_hook(Box::new(|i| { let l = i.location().map(|l| format!("{}:{}", l.file(), l.line())).unwrap_or_default(); if !l.contains("tokio") { eprintln!("PANICLOC {l}"); } }));
    let n: u64 = std::env::args().nth(1).map(|s| s.parse().unwrap()).unwrap_or(100);
    let t0 = std::time::Instant::now();
    let mut total: BTreeMap<String, u32> = BTreeMap::new();
    let mut bad = 0; let mut shown = 0;
    for seed in 0..n {
        let res = std::panic::catch_unwind(|| run(seed));
        let (p, s) = match res { Ok(v) => v, Err(e) => { let m = e.downcast_ref::<String>().cloned().or_else(|| e.downcast_ref::<&str>().map(|s| s.to_string())).unwrap_or_default(); *total.entry(format!("PANIC:{}", &m[..m.len().min(60)])).or_default() += 1; continue; } };
        for (k, v) in s { *total.entry(k).or_default() += v; }
        if !p.is_empty() { bad += 1; if shown < 6 { shown += 1; println!("seed {seed}: {:?}", &p[..p.len().min(3)]); } }
    }
    println!("sims={n} with_problems={bad} outcomes={total:?} wall={:?}", t0.elapsed());
}
