use std::borrow::Cow;
use std::collections::{BTreeMap, BTreeSet};
use std::net::SocketAddr;
use datacake_node::{Consistency, ConsistencyError, DCAwareSelector, NodeSelector, Nodes};

fn a(dc: usize, n: usize) -> SocketAddr { SocketAddr::from(([10, dc as u8, 0, n as u8], 80)) }
const LEVELS: [Consistency; 8] = [Consistency::None, Consistency::One, Consistency::Two, Consistency::Three, Consistency::Quorum, Consistency::LocalQuorum, Consistency::All, Consistency::EachQuorum];

fn need(level: Consistency, layout: &[usize], local_dc: usize) -> usize {
    let total: usize = layout.iter().sum();
    match level { Consistency::None => 0, Consistency::One => 1, Consistency::Two => 2, Consistency::Three => 3, Consistency::Quorum => total / 2, Consistency::LocalQuorum => layout[local_dc] / 2, Consistency::All => total - 1,
        Consistency::EachQuorum => layout.iter().enumerate().map(|(d, c)| if d == local_dc { c / 2 } else { c / 2 + 1 }).sum() }
}

fn main() {
    let mut layouts = vec![];
    for ndc in 1..=4usize { let mut cur = vec![1usize; ndc]; loop { layouts.push(cur.clone()); let mut i = 0; loop { if i == ndc { break; } cur[i] += 1; if cur[i] <= 4 { break; } cur[i] = 1; i += 1; } if i == ndc { break; } } }
    let mut classes: BTreeMap<String, (u64, String)> = BTreeMap::new();
    let mut evals = 0u64;
    for layout in &layouts {
        let total: usize = layout.iter().sum();
        for ldc in 0..layout.len() { for ln in 0..layout[ldc] {
            let local = a(ldc, ln); let ldc_name = format!("dc-{ldc}");
            let mut hist_sets: Vec<Vec<Consistency>> = vec![vec![]];
            for l1 in LEVELS { hist_sets.push(vec![l1]); }
            if total <= 8 { for l1 in LEVELS { for l2 in LEVELS { hist_sets.push(vec![l1, l2]); } } }
            for hist in &hist_sets { for level in LEVELS {
                let mut dcs = BTreeMap::new();
                for (d, c) in layout.iter().enumerate() { dcs.insert(Cow::Owned(format!("dc-{d}")), Nodes::from_vec((0..*c).map(|n| a(d, n)).collect()).into()); }
                let mut sel = DCAwareSelector;
                for h in hist { let _ = sel.select_nodes(local, &ldc_name, total, &mut dcs, *h); }
                let r = sel.select_nodes(local, &ldc_name, total, &mut dcs, level);
                evals += 1;
                let n = need(level, layout, ldc); let others = total - 1;
                let mut note = |c: String, d: String| { let e = classes.entry(c).or_insert((0, d)); e.0 += 1; };
                match r {
                    Ok(s) => {
                        let set: BTreeSet<_> = s.iter().collect();
                        if set.len() != s.len() { note(format!("dup:{level:?}"), format!("{layout:?} local=({ldc},{ln}) hist={hist:?} -> {s:?}")); }
                        if s.contains(&local) { note(format!("contains-local:{level:?}"), format!("{layout:?} local=({ldc},{ln}) hist={hist:?} -> {s:?}")); }
                        if s.len() < n { note(format!("too-few:{level:?}"), format!("{layout:?} local=({ldc},{ln}) hist={hist:?} need={n} -> {s:?}")); }
                        if matches!(level, Consistency::One | Consistency::Two | Consistency::Three) && s.len() != n { note(format!("not-exactly-n:{level:?}"), format!("{layout:?} local=({ldc},{ln}) hist={hist:?} need={n} -> {s:?}")); }
                    },
                    Err(ConsistencyError::NotEnoughNodes { live, required }) => { if others >= n { note(format!("NEN-but-enough:{level:?}:hist{}", hist.len()), format!("{layout:?} local=({ldc},{ln}) hist={hist:?} others={others} need={n} live={live} req={required}")); } },
                    Err(e) => note("other-err".into(), format!("{e}")),
                }
            } }
        } }
    }
    println!("layouts={} evaluations={evals}", layouts.len());
    for (c, (n, d)) in &classes { println!("{n:8} {c}   e.g. {d}"); }
}
