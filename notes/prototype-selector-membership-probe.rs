use std::borrow::Cow;
use std::collections::BTreeMap;
use std::net::SocketAddr;
use datacake_node::verif as nv;
use datacake_node::{ClusterMember, ClusterStatistics, Consistency, DCAwareSelector, Nodes, RpcNetwork};
use tokio::sync::watch;
use tokio_stream::StreamExt;

fn a(dc: u8, n: u8) -> SocketAddr { SocketAddr::from(([10, dc, 0, n], 80)) }

fn main() {
    let rt = tokio::runtime::Builder::new_current_thread().enable_all().start_paused(true).build().unwrap();
    rt.block_on(async {
        // C15: One then Two on one 3-node DC, then drop a DC
        let sel = nv::start_node_selector(a(0, 0), Cow::Borrowed("dc0"), DCAwareSelector).await;
        let mut layout = BTreeMap::new();
        layout.insert(Cow::Borrowed("dc0"), Nodes::from_vec(vec![a(0, 0), a(0, 1), a(0, 2)]));
        nv::set_nodes(&sel, layout.clone()).await;
        println!("C15 One  -> {:?}", sel.get_nodes(Consistency::One).await);
        println!("C15 Two  -> {:?}", sel.get_nodes(Consistency::Two).await);
        layout.insert(Cow::Borrowed("dc1"), Nodes::from_vec(vec![a(1, 0), a(1, 1)]));
        nv::set_nodes(&sel, layout.clone()).await;
        println!("C15 All with dc1 -> {:?}", sel.get_nodes(Consistency::All).await);
        layout.remove("dc1");
        nv::set_nodes(&sel, layout.clone()).await;
        println!("C15 All after dc1 left -> {:?}", sel.get_nodes(Consistency::All).await);

        // C16: watcher deltas
        let me = ClusterMember::new(0, a(0, 0), "dc0".into());
        let m1 = ClusterMember::new(1, a(0, 1), "dc0".into());
        let m2 = ClusterMember::new(2, a(0, 2), "dc0".into());
        let (tx, rx) = watch::channel(BTreeMap::from([(0u8, me.clone())]));
        let out = nv::spawn_membership_watcher(0, RpcNetwork::default(), sel.clone(), ClusterStatistics::default(), rx);
        let mut probe = out.clone();
        let mut early = tokio_stream::wrappers::WatchStream::new(out.clone());
        let mut step = |snap: Vec<&ClusterMember>| { let m: nv::NodeMembership = snap.into_iter().map(|c| (c.node_id, c.clone())).collect(); tx.send(m).unwrap(); };
        probe.changed().await.ok();
        step(vec![&me, &m1]); probe.changed().await.unwrap();
        step(vec![&me, &m1, &m2]); probe.changed().await.unwrap();
        // a late subscriber created now
        let mut late = tokio_stream::wrappers::WatchStream::new(out.clone());
        let d = late.next().await.unwrap();
        println!("C16 late subscriber first delta: joined={:?} left={:?}", d.joined.iter().map(|m| m.node_id).collect::<Vec<_>>(), d.left.len());
        step(vec![&me, &m2]); probe.changed().await.unwrap();
        let d = late.next().await.unwrap();
        println!("C16 after node1 left: joined={:?} left={:?}", d.joined.iter().map(|m| m.node_id).collect::<Vec<_>>(), d.left.iter().map(|m| m.node_id).collect::<Vec<_>>());
        // slow early subscriber reads only now
        let mut acc = vec![];
        while let Ok(Some(d)) = tokio::time::timeout(std::time::Duration::from_millis(1), early.next()).await { acc.push((d.joined.iter().map(|m| m.node_id).collect::<Vec<_>>(), d.left.iter().map(|m| m.node_id).collect::<Vec<_>>())); }
        println!("C16 slow early subscriber saw: {acc:?}");
    });
}
