use std::cell::Cell;
use std::marker::PhantomData;
use std::rc::Rc;
use std::sync::atomic::{AtomicI64, Ordering};
use std::sync::Arc;
use std::time::Duration;
use datacake_crdt::{HLCTimestamp, Key, OrSWotSet};
use datacake_eventual_consistency::test_utils::{MemStore, MemStoreError};
use datacake_eventual_consistency::verif as ecv;
use datacake_eventual_consistency::{BulkMutationError, Document, DocumentMetadata, Storage};
use datacake_node::Clock;
use rand::prelude::*;

const DRIFT: Duration = Duration::from_secs(4100);
const TICK: Duration = Duration::from_millis(4);

fn c09(iters: u64) {
    let wall = Rc::new(Cell::new(Duration::from_secs(1_000_000)));
    let w2 = wall.clone();
    datacake_crdt::verif::set_wall(Some(Box::new(move |_| Some(w2.get()))));
    let (mut sends, mut recvs, mut errs, mut bad) = (0u64, 0u64, 0u64, 0u64);
    let mut first = None;
    for seed in 0..iters {
        let mut rng = StdRng::seed_from_u64(seed);
        wall.set(Duration::from_secs(1_000_000) + TICK * rng.gen_range(0..1000));
        let mut clock = HLCTimestamp::now(if rng.gen_bool(0.2) { u16::MAX - 2 } else { 0 }, 7);
        let mut hist: Vec<HLCTimestamp> = vec![];
        for _ in 0..rng.gen_range(5..60) {
            // move wall
            let w = wall.get();
            let nw = match rng.gen_range(0..10) { 0..=3 => w, 4..=6 => w + TICK * rng.gen_range(1..500), 7 => w.saturating_sub(TICK * rng.gen_range(1..2_000_000)), 8 => w + Duration::from_secs(rng.gen_range(3000..9000)), _ => w + Duration::from_micros(rng.gen_range(0..9000)) };
            wall.set(nw);
            let before = clock.as_u64();
            let wall_norm = { let ms = nw.as_millis() as u64; Duration::from_millis(ms - ms % 4) };
            if rng.gen_bool(0.55) {
                match clock.send() {
                    Ok(ts) => { sends += 1;
                        let ok = hist.iter().all(|h| *h < ts) && ts.node() == 7 && ts.datacake_timestamp().saturating_sub(wall_norm) <= DRIFT && ts == clock;
                        if !ok { bad += 1; first.get_or_insert(format!("seed {seed}: send -> {ts} hist_max={:?} wall={wall_norm:?}", hist.iter().max())); }
                        hist.push(ts); },
                    Err(_) => { errs += 1; if clock.as_u64() != before { bad += 1; first.get_or_insert(format!("seed {seed}: send error changed clock")); } },
                }
            } else {
                let base = if rng.gen_bool(0.5) { clock.datacake_timestamp() } else { wall_norm };
                let t = match rng.gen_range(0..6) { 0 => base, 1 => base + TICK, 2 => base.saturating_sub(TICK * rng.gen_range(1..1000)), 3 => wall_norm + DRIFT, 4 => wall_norm + DRIFT + TICK, _ => base + Duration::from_secs(rng.gen_range(0..5000)) };
                let m = HLCTimestamp::new(t, *[0u16, 1, 65534, 65535].choose(&mut rng).unwrap(), *[7u8, 3, 200].choose(&mut rng).unwrap());
                match clock.recv(&m) {
                    Ok(_) => { recvs += 1; let ok = clock > m && hist.iter().all(|h| *h < clock || *h == HLCTimestamp::from_u64(before)) && clock.as_u64() > before && clock.node() == 7 && clock.datacake_timestamp().saturating_sub(wall_norm) <= DRIFT;
                        if !ok { bad += 1; first.get_or_insert(format!("seed {seed}: recv {m} -> clock {clock} before {}", HLCTimestamp::from_u64(before))); }
                        hist.push(m); hist.push(clock); },
                    Err(_) => { errs += 1; if clock.as_u64() != before { bad += 1; first.get_or_insert(format!("seed {seed}: recv error changed clock")); } },
                }
            }
        }
    }
    println!("C09: sends={sends} recvs={recvs} errors={errs} violations={bad} {:?}", first);
}

fn c11(rounds: u32) {
    let mut bad = 0; let mut total = 0usize;
    for r in 0..rounds {
        let rt = if r % 2 == 0 { tokio::runtime::Builder::new_multi_thread().worker_threads(8).enable_all().build().unwrap() } else { tokio::runtime::Builder::new_current_thread().enable_all().build().unwrap() };
        let res: Vec<Vec<HLCTimestamp>> = rt.block_on(async {
            let clock = Clock::new(5);
            let mut hs = vec![];
            for t in 0..16u8 { let c = clock.clone(); hs.push(tokio::spawn(async move { let mut v = vec![]; for i in 0..200u32 { if i % 17 == 3 { let last: HLCTimestamp = *v.last().unwrap(); let remote = HLCTimestamp::new(last.datacake_timestamp() + Duration::from_secs(30), 9, 100 + t); c.register_ts(remote).await; let got = c.get_time().await; assert!(got > remote, "after register"); v.push(got); } else { v.push(c.get_time().await); } if i % 5 == 0 { tokio::task::yield_now().await; } } v })); }
            let mut out = vec![]; for h in hs { out.push(h.await.unwrap()); } out });
        let mut all: Vec<HLCTimestamp> = res.iter().flatten().copied().collect(); total += all.len();
        for v in &res { if !v.windows(2).all(|w| w[0] < w[1]) { bad += 1; } }
        all.sort(); if all.windows(2).any(|w| w[0] == w[1]) { bad += 1; }
    }
    println!("C11: rounds={rounds} stamps={total} violations={bad}");
}

struct Parking { inner: MemStore, park_after: AtomicI64 } // n>=0: perform inner write of first n docs then park forever
#[async_trait::async_trait]
impl Storage for Parking {
    type Error = MemStoreError;
    type DocsIter = <MemStore as Storage>::DocsIter;
    type MetadataIter = <MemStore as Storage>::MetadataIter;
    async fn get_keyspace_list(&self) -> Result<Vec<String>, Self::Error> { self.inner.get_keyspace_list().await }
    async fn iter_metadata(&self, k: &str) -> Result<Self::MetadataIter, Self::Error> { self.inner.iter_metadata(k).await }
    async fn remove_tombstones(&self, k: &str, keys: impl Iterator<Item = Key> + Send) -> Result<(), BulkMutationError<Self::Error>> { self.inner.remove_tombstones(k, keys).await }
    async fn put(&self, k: &str, d: Document) -> Result<(), Self::Error> { let p = self.park_after.load(Ordering::Relaxed); let r = self.inner.put(k, d).await; if p >= 0 { std::future::pending::<()>().await; } r }
    async fn multi_put(&self, k: &str, docs: impl Iterator<Item = Document> + Send) -> Result<(), BulkMutationError<Self::Error>> { let docs: Vec<_> = docs.collect(); let p = self.park_after.load(Ordering::Relaxed); if p >= 0 { let n = (p as usize).min(docs.len()); let _ = self.inner.multi_put(k, docs[..n].iter().cloned()).await; std::future::pending::<()>().await; } self.inner.multi_put(k, docs.into_iter()).await }
    async fn mark_as_tombstone(&self, k: &str, id: Key, ts: HLCTimestamp) -> Result<(), Self::Error> { let p = self.park_after.load(Ordering::Relaxed); let r = self.inner.mark_as_tombstone(k, id, ts).await; if p >= 0 { std::future::pending::<()>().await; } r }
    async fn mark_many_as_tombstone(&self, k: &str, docs: impl Iterator<Item = DocumentMetadata> + Send) -> Result<(), BulkMutationError<Self::Error>> { let docs: Vec<_> = docs.collect(); let p = self.park_after.load(Ordering::Relaxed); if p >= 0 { let n = (p as usize).min(docs.len()); let _ = self.inner.mark_many_as_tombstone(k, docs[..n].iter().copied()).await; std::future::pending::<()>().await; } self.inner.mark_many_as_tombstone(k, docs.into_iter()).await }
    async fn get(&self, k: &str, id: Key) -> Result<Option<Document>, Self::Error> { self.inner.get(k, id).await }
    async fn multi_get(&self, k: &str, ids: impl Iterator<Item = Key> + Send) -> Result<Self::DocsIter, Self::Error> { self.inner.multi_get(k, ids).await }
}
fn ts(s: u64, c: u16, n: u8) -> HLCTimestamp { HLCTimestamp::new(Duration::from_secs(s), c, n) }

async fn c07_one(seed: u64) -> Result<bool, String> {
    let mut rng = StdRng::seed_from_u64(seed);
    let store = Arc::new(Parking { inner: MemStore::default(), park_after: AtomicI64::new(-1) });
    let group = ecv::KeyspaceGroup::new(store.clone(), Clock::new(1)).await;
    let nreq = rng.gen_range(1..9); let crash_inside = rng.gen_bool(0.5);
    let mut used = std::collections::HashSet::new();
    let span: u64 = std::env::var("SPAN").ok().and_then(|v| v.parse().ok()).unwrap_or(30_000);
    let mut fresh = |rng: &mut StdRng| loop { let t = ts(50_000 + rng.gen_range(0..span), rng.gen_range(0..3), rng.gen_range(2..5)); if used.insert(t) { return t; } };
    let mut acked: Vec<(String, u64, HLCTimestamp, bool)> = vec![];
    for i in 0..nreq {
        let ksn = *["a", "b"].choose(&mut rng).unwrap(); let ks = group.get_or_create_keyspace(ksn).await; let src = rng.gen_range(0..2usize);
        let last = i == nreq - 1;
        if last && crash_inside { store.park_after.store(rng.gen_range(0..3), Ordering::Relaxed); }
        let kind = rng.gen_range(0..4);
        let fut = async { match kind {
            0 => { let (k, t) = (rng.gen_range(0..3), fresh(&mut rng)); ks.send(ecv::Set { source: src, doc: Document::new(k, t, vec![1]), ctx: None, _marker: PhantomData::<Parking> }).await.map(|_| vec![(k, t, false)]).unwrap_or_default() },
            1 => { let (k, t) = (rng.gen_range(0..3), fresh(&mut rng)); ks.send(ecv::Del { source: src, doc: DocumentMetadata::new(k, t), _marker: PhantomData::<Parking> }).await.map(|_| vec![(k, t, true)]).unwrap_or_default() },
            2 => { let mut docs = smallvec::SmallVec::new(); let mut v = vec![]; for k in 0..3u64 { if rng.gen_bool(0.6) { let t = fresh(&mut rng); docs.push(Document::new(k, t, vec![2])); v.push((k, t, false)); } } ks.send(ecv::MultiSet { source: src, docs, ctx: None, _marker: PhantomData::<Parking> }).await.map(|_| v).unwrap_or_default() },
            _ => { let mut docs = smallvec::SmallVec::new(); let mut v = vec![]; for k in 0..3u64 { if rng.gen_bool(0.6) { let t = fresh(&mut rng); docs.push(DocumentMetadata::new(k, t)); v.push((k, t, true)); } } ks.send(ecv::MultiDel { source: src, docs, _marker: PhantomData::<Parking> }).await.map(|_| v).unwrap_or_default() },
        } };
        match tokio::time::timeout(Duration::from_secs(5), fut).await { Ok(v) => for (k, t, d) in v { acked.push((ksn.to_string(), k, t, d)); }, Err(_) => { /* crashed inside the request */ } }
    }
    drop(group);
    store.park_after.store(-1, Ordering::Relaxed);
    // restart on the same storage
    let g2 = ecv::KeyspaceGroup::new(store.clone(), Clock::new(1)).await;
    g2.load_states_from_storage().await.map_err(|e| e.to_string())?;
    for ksn in store.get_keyspace_list().await.unwrap() {
        let ks = g2.get_or_create_keyspace(&ksn).await;
        let bytes = ks.send(ecv::Serialize).await.unwrap(); let mut al = rkyv::AlignedVec::new(); al.extend_from_slice(&bytes);
        let set: OrSWotSet<2> = unsafe { rkyv::from_bytes_unchecked(&al).unwrap() };
        let (mut live, mut dead) = OrSWotSet::<2>::default().diff(&set); live.sort(); dead.sort();
        let meta: Vec<_> = store.iter_metadata(&ksn).await.unwrap().collect();
        let mut sl: Vec<_> = meta.iter().filter(|m| !m.2).map(|m| (m.0, m.1)).collect(); sl.sort();
        let mut sd: Vec<_> = meta.iter().filter(|m| m.2).map(|m| (m.0, m.1)).collect(); sd.sort();
        if live != sl || dead != sd { return Err(format!("seed {seed} ks {ksn}: rebuilt live={live:?} dead={dead:?} store live={sl:?} dead={sd:?}")); }
    }
    // acked ops survive (or are superseded by a newer stamp for that id)
    for (ksn, k, t, _d) in &acked { let meta: Vec<_> = store.iter_metadata(ksn).await.unwrap().collect(); if !meta.iter().any(|m| m.0 == *k && m.1 >= *t) { return Err(format!("seed {seed}: acked op {ksn}/{k}@{t} lost")); } }
    Ok(crash_inside)
}

fn main() {
    let which = std::env::args().nth(1).unwrap_or_default();
    if which == "c09" { c09(200_000); }
    if which == "c11" { c11(40); }
    if which == "c07" { let (mut ok, mut inside, mut bad) = (0, 0, 0); let mut first = None;
        for seed in 0..5000u64 { let rt = tokio::runtime::Builder::new_current_thread().enable_all().start_paused(true).build().unwrap();
            match rt.block_on(c07_one(seed)) { Ok(i) => { ok += 1; if i { inside += 1; } }, Err(e) => { bad += 1; first.get_or_insert(e); } } }
        println!("C07: restarts={} crash_inside_request={inside} violations={bad} {:?}", ok + bad, first); }
}
