// C06 prototype: Ok => need(L) other replicas hold it; Err(ConsistencyFailure{responses}) => responses == acks let through.
use std::borrow::Cow;
use std::collections::BTreeMap;
use std::net::SocketAddr;
use std::sync::atomic::{AtomicBool, Ordering};
use std::sync::Arc;
use std::time::Duration;
use datacake_crdt::{HLCTimestamp, Key};
use datacake_eventual_consistency::test_utils::{MemStore, MemStoreError};
use datacake_eventual_consistency::verif as ecv;
use datacake_eventual_consistency::{BulkMutationError, Document, DocumentMetadata, EventuallyConsistentStore, Storage, StoreError};
use datacake_node::verif as nv;
use datacake_node::{Clock, ClusterMember, ClusterStatistics, Consistency, ConsistencyError, DCAwareSelector, RpcNetwork};
use datacake_rpc::verif as rv;
use datacake_rpc::Server;
use parking_lot::Mutex;
use rand::prelude::*;
use tokio::sync::watch;

struct Faulty { inner: MemStore, fail: Arc<AtomicBool> }
fn err() -> MemStoreError { MemStoreError(std::io::Error::new(std::io::ErrorKind::Other, "injected").into()) }
#[async_trait::async_trait]
impl Storage for Faulty {
    type Error = MemStoreError;
    type DocsIter = <MemStore as Storage>::DocsIter;
    type MetadataIter = <MemStore as Storage>::MetadataIter;
    async fn get_keyspace_list(&self) -> Result<Vec<String>, Self::Error> { self.inner.get_keyspace_list().await }
    async fn iter_metadata(&self, k: &str) -> Result<Self::MetadataIter, Self::Error> { self.inner.iter_metadata(k).await }
    async fn remove_tombstones(&self, k: &str, keys: impl Iterator<Item = Key> + Send) -> Result<(), BulkMutationError<Self::Error>> { self.inner.remove_tombstones(k, keys).await }
    async fn put(&self, k: &str, d: Document) -> Result<(), Self::Error> { if self.fail.load(Ordering::Relaxed) { return Err(err()); } self.inner.put(k, d).await }
    async fn multi_put(&self, k: &str, docs: impl Iterator<Item = Document> + Send) -> Result<(), BulkMutationError<Self::Error>> { if self.fail.load(Ordering::Relaxed) { return Err(BulkMutationError::empty_with_error(err())); } self.inner.multi_put(k, docs).await }
    async fn mark_as_tombstone(&self, k: &str, id: Key, ts: HLCTimestamp) -> Result<(), Self::Error> { if self.fail.load(Ordering::Relaxed) { return Err(err()); } self.inner.mark_as_tombstone(k, id, ts).await }
    async fn mark_many_as_tombstone(&self, k: &str, docs: impl Iterator<Item = DocumentMetadata> + Send) -> Result<(), BulkMutationError<Self::Error>> { if self.fail.load(Ordering::Relaxed) { return Err(BulkMutationError::empty_with_error(err())); } self.inner.mark_many_as_tombstone(k, docs).await }
    async fn get(&self, k: &str, id: Key) -> Result<Option<Document>, Self::Error> { self.inner.get(k, id).await }
    async fn multi_get(&self, k: &str, ids: impl Iterator<Item = Key> + Send) -> Result<Self::DocsIter, Self::Error> { self.inner.multi_get(k, ids).await }
}

struct Node { id: u8, addr: SocketAddr, dc: String, store: EventuallyConsistentStore<Faulty>, fail: Arc<AtomicBool>, snap_tx: watch::Sender<nv::NodeMembership>, _server: Server }

async fn make_node(id: u8, addr: SocketAddr, dc: &str) -> Node {
    let clock = Clock::new(id); let network = RpcNetwork::default(); let server = Server::verif_in_memory(addr);
    let selector = nv::start_node_selector(addr, Cow::Owned(dc.to_string()), DCAwareSelector).await;
    let stats = ClusterStatistics::default(); let me = ClusterMember::new(id, addr, dc.into());
    let (snap_tx, snap_rx) = watch::channel(BTreeMap::from([(id, me.clone())]));
    let changes = nv::spawn_membership_watcher(id, network.clone(), selector.clone(), stats.clone(), snap_rx);
    let handle = nv::new_handle(me, clock, network, selector, stats, changes);
    let fail = Arc::new(AtomicBool::new(false));
    let store = ecv::create_store(Faulty { inner: MemStore::default(), fail: fail.clone() }, Duration::from_secs(5), handle, &server).await.unwrap();
    Node { id, addr, dc: dc.into(), store, fail, snap_tx, _server: server }
}

fn need(level: Consistency, nodes: &[Node], me: usize) -> usize {
    let total = nodes.len(); let local = nodes.iter().filter(|n| n.dc == nodes[me].dc).count();
    match level { Consistency::None => 0, Consistency::One => 1, Consistency::Two => 2, Consistency::Three => 3, Consistency::Quorum => total / 2, Consistency::LocalQuorum => local / 2, Consistency::All => total - 1,
        Consistency::EachQuorum => { let mut dcs: BTreeMap<&str, usize> = BTreeMap::new(); for n in nodes { *dcs.entry(&n.dc).or_default() += 1; } dcs.iter().map(|(d, c)| if *d == nodes[me].dc { c / 2 } else { c / 2 + 1 }).sum() } }
}

async fn scenario(seed: u64, scen: u32, stats: &Mutex<BTreeMap<String, u32>>) -> Result<(), String> {
    let mut rng = StdRng::seed_from_u64(seed);
    let base = Duration::from_secs(100_000_000); let start = tokio::time::Instant::now();
    datacake_crdt::verif::set_wall(Some(Box::new(move |_n| Some(base + start.elapsed()))));
    let layout: Vec<usize> = (0..rng.gen_range(1..4)).map(|_| rng.gen_range(1..4)).collect();
    let mut nodes = vec![]; let mut id = 0u8;
    for (d, cnt) in layout.iter().enumerate() { for _ in 0..*cnt { id += 1; nodes.push(make_node(id, SocketAddr::from(([10, (scen >> 8) as u8, scen as u8, id], 7000)), &format!("dc{d}")).await); } }
    let members: nv::NodeMembership = nodes.iter().map(|n| (n.id, ClusterMember::new(n.id, n.addr, n.dc.clone()))).collect();
    for nd in &nodes { nd.snap_tx.send(members.clone()).unwrap(); }
    tokio::time::sleep(Duration::from_millis(50)).await;
    // per-destination verdict flags
    let drops: Vec<Arc<Mutex<u8>>> = nodes.iter().map(|_| Arc::new(Mutex::new(0u8))).collect(); // 0 deliver,1 drop,2 dropreply
    for (i, nd) in nodes.iter().enumerate() { let d = drops[i].clone(); rv::set_policy(nd.addr, Some(Arc::new(move |m: rv::MsgInfo| { let d = d.clone(); Box::pin(async move { if !m.uri.contains("ConsistencyService") { return rv::Verdict::Deliver; } match *d.lock() { 1 => rv::Verdict::Drop, 2 => rv::Verdict::DropReply, _ => rv::Verdict::Deliver } }) }))); }
    let levels = [Consistency::None, Consistency::One, Consistency::Two, Consistency::Three, Consistency::Quorum, Consistency::LocalQuorum, Consistency::All, Consistency::EachQuorum];
    for opn in 0..12u64 {
        let me = rng.gen_range(0..nodes.len()); let level = *levels.choose(&mut rng).unwrap();
        // faults on random others
        for (i, nd) in nodes.iter().enumerate() { nd.fail.store(false, Ordering::Relaxed); *drops[i].lock() = 0; if i != me && rng.gen_bool(0.3) { match rng.gen_range(0..3) { 0 => nd.fail.store(true, Ordering::Relaxed), 1 => *drops[i].lock() = 1, _ => *drops[i].lock() = 2 } } }
        // force fresh selection (selector cache is real-time): re-install membership
        nodes[me].snap_tx.send(members.clone()).unwrap(); tokio::time::sleep(Duration::from_millis(1)).await;
        let h = nodes[me].store.handle(); let key = 100 + opn; let is_del = rng.gen_bool(0.3);
        let r = if is_del { h.del("ks", key, level).await } else { h.put("ks", key, vec![opn as u8], level).await };
        let holds = |i: usize| { let nodes = &nodes; async move { let g = ecv::group_of(&nodes[i].store); let m: Vec<_> = g.storage().iter_metadata("ks").await.unwrap().collect(); m.iter().any(|e| e.0 == key && e.2 == is_del) } };
        let mut others = 0; for i in 0..nodes.len() { if i != me && holds(i).await { others += 1; } }
        let local = holds(me).await;
        let acked = (0..nodes.len()).filter(|&i| i != me).count(); let _ = acked;
        match r {
            Ok(()) => { *stats.lock().entry(format!("ok:{level:?}")).or_default() += 1; let n = need(level, &nodes, me); if !local || others < n { return Err(format!("Ok for {level:?} layout={layout:?} me={me} but local={local} others={others} need={n}")); } },
            Err(StoreError::ConsistencyError(ConsistencyError::ConsistencyFailure { responses, required, .. })) => { *stats.lock().entry(format!("fail:{level:?}")).or_default() += 1;
                // acks let through = selected nodes that hold it and whose reply was not dropped; we cannot see the selection, so check bounds
                let held_and_replied = (0..nodes.len()).filter(|&i| i != me && *drops[i].lock() != 2).count(); let _ = held_and_replied;
                let mut replied_holders = 0; for i in 0..nodes.len() { if i != me && *drops[i].lock() != 2 && holds(i).await { replied_holders += 1; } }
                if !local { return Err(format!("ConsistencyFailure but local write missing {level:?}")); }
                if responses > replied_holders || responses >= required { return Err(format!("ConsistencyFailure responses={responses} required={required} replied_holders={replied_holders} {level:?}")); } },
            Err(StoreError::ConsistencyError(ConsistencyError::NotEnoughNodes { live, required })) => { *stats.lock().entry(format!("nen:{level:?}")).or_default() += 1; let n = need(level, &nodes, me); if nodes.len() - 1 >= n.max(required) { *stats.lock().entry(format!("NEN-with-enough-nodes:{level:?} live={live} req={required} others={}", nodes.len() - 1)).or_default() += 1; } },
            Err(e) => return Err(format!("unexpected error {e}")),
        }
    }
    for nd in &nodes { rv::unregister(nd.addr); }
    Ok(())
}

fn main() {
    let iters: u32 = std::env::args().nth(1).map(|s| s.parse().unwrap()).unwrap_or(500);
    let stats = Mutex::new(BTreeMap::new()); let t0 = std::time::Instant::now(); let mut bad = 0; let mut first = vec![];
    for i in 0..iters {
        let rt = tokio::runtime::Builder::new_current_thread().enable_all().start_paused(true).build().unwrap();
        if let Err(e) = rt.block_on(scenario(7000 + i as u64, i, &stats)) { bad += 1; if first.len() < 4 { first.push(format!("seed {i}: {e}")); } }
    }
    println!("scenarios={iters} violations={bad} wall={:?}", t0.elapsed());
    for f in first { println!("--- {f}"); }
    for (k, v) in stats.lock().iter() { println!("{v:6} {k}"); }
}
