// C02 at actor level: random request sequences incl. bulk with duplicate ids, partial failures.
use std::marker::PhantomData;
use std::sync::atomic::{AtomicI64, Ordering};
use std::sync::Arc;
use std::time::Duration;
use datacake_crdt::{HLCTimestamp, Key, OrSWotSet};
use datacake_eventual_consistency::test_utils::{MemStore, MemStoreError};
use datacake_eventual_consistency::verif as ecv;
use datacake_eventual_consistency::{BulkMutationError, Document, DocumentMetadata, Storage};
use datacake_node::Clock;
use rand::prelude::*;

struct Faulty { inner: MemStore, fail_after: AtomicI64 } // -1 = never; n = fail bulk after n docs / single if 0
fn err() -> MemStoreError { MemStoreError(std::io::Error::new(std::io::ErrorKind::Other, "injected").into()) }
#[async_trait::async_trait]
impl Storage for Faulty {
    type Error = MemStoreError;
    type DocsIter = <MemStore as Storage>::DocsIter;
    type MetadataIter = <MemStore as Storage>::MetadataIter;
    async fn get_keyspace_list(&self) -> Result<Vec<String>, Self::Error> { self.inner.get_keyspace_list().await }
    async fn iter_metadata(&self, k: &str) -> Result<Self::MetadataIter, Self::Error> { self.inner.iter_metadata(k).await }
    async fn remove_tombstones(&self, k: &str, keys: impl Iterator<Item = Key> + Send) -> Result<(), BulkMutationError<Self::Error>> {
        let keys: Vec<_> = keys.collect(); let f = self.fail_after.swap(-1, Ordering::Relaxed);
        if f >= 0 { let n = (f as usize).min(keys.len()); self.inner.remove_tombstones(k, keys[..n].iter().copied()).await?; return Err(BulkMutationError::new(err(), keys[..n].to_vec())); }
        self.inner.remove_tombstones(k, keys.into_iter()).await
    }
    async fn put(&self, k: &str, d: Document) -> Result<(), Self::Error> { if self.fail_after.swap(-1, Ordering::Relaxed) >= 0 { return Err(err()); } self.inner.put(k, d).await }
    async fn multi_put(&self, k: &str, docs: impl Iterator<Item = Document> + Send) -> Result<(), BulkMutationError<Self::Error>> {
        let docs: Vec<_> = docs.collect(); let f = self.fail_after.swap(-1, Ordering::Relaxed);
        if f >= 0 { let n = (f as usize).min(docs.len()); self.inner.multi_put(k, docs[..n].iter().cloned()).await?; return Err(BulkMutationError::new(err(), docs[..n].iter().map(|d| d.id()).collect())); }
        self.inner.multi_put(k, docs.into_iter()).await
    }
    async fn mark_as_tombstone(&self, k: &str, id: Key, ts: HLCTimestamp) -> Result<(), Self::Error> { if self.fail_after.swap(-1, Ordering::Relaxed) >= 0 { return Err(err()); } self.inner.mark_as_tombstone(k, id, ts).await }
    async fn mark_many_as_tombstone(&self, k: &str, docs: impl Iterator<Item = DocumentMetadata> + Send) -> Result<(), BulkMutationError<Self::Error>> {
        let docs: Vec<_> = docs.collect(); let f = self.fail_after.swap(-1, Ordering::Relaxed);
        if f >= 0 { let n = (f as usize).min(docs.len()); self.inner.mark_many_as_tombstone(k, docs[..n].iter().copied()).await?; return Err(BulkMutationError::new(err(), docs[..n].iter().map(|d| d.id).collect())); }
        self.inner.mark_many_as_tombstone(k, docs.into_iter()).await
    }
    async fn get(&self, k: &str, id: Key) -> Result<Option<Document>, Self::Error> { self.inner.get(k, id).await }
    async fn multi_get(&self, k: &str, ids: impl Iterator<Item = Key> + Send) -> Result<Self::DocsIter, Self::Error> { self.inner.multi_get(k, ids).await }
}

fn ts(s: u64, c: u16, n: u8) -> HLCTimestamp { HLCTimestamp::new(Duration::from_secs(s), c, n) }

async fn scenario(seed: u64, dup_ids: bool, faults: bool) -> Result<(), String> {
    let mut rng = StdRng::seed_from_u64(seed);
    let store = Arc::new(Faulty { inner: MemStore::default(), fail_after: AtomicI64::new(-1) });
    let group = ecv::KeyspaceGroup::new(store.clone(), Clock::new(1)).await;
    let ks = group.get_or_create_keyspace("ks").await;
    let span = if rng.gen_bool(0.5) { 3000 } else { 30_000 };
    let mut used = std::collections::HashSet::new();
    let mut fresh_ts = |rng: &mut StdRng| loop { let t = ts(50_000 + rng.gen_range(0..span), rng.gen_range(0..3), rng.gen_range(2..5)); if used.insert(t) { return t; } };
    let mut trace = vec![];
    for step in 0..rng.gen_range(3..14) {
        let src = rng.gen_range(0..2usize);
        if faults && rng.gen_bool(0.15) { store.fail_after.store(rng.gen_range(0..3), Ordering::Relaxed); trace.push("FAULT".to_string()); }
        let kind = rng.gen_range(0..10);
        match kind {
            0..=2 => { let (k, t) = (rng.gen_range(0..3), fresh_ts(&mut rng)); trace.push(format!("set s{src} k{k} {t}")); let _ = ks.send(ecv::Set { source: src, doc: Document::new(k, t, vec![step as u8]), ctx: None, _marker: PhantomData::<Faulty> }).await; },
            3..=4 => { let (k, t) = (rng.gen_range(0..3), fresh_ts(&mut rng)); trace.push(format!("del s{src} k{k} {t}")); let _ = ks.send(ecv::Del { source: src, doc: DocumentMetadata::new(k, t), _marker: PhantomData::<Faulty> }).await; },
            5..=6 => { let n = rng.gen_range(1..4); let mut docs = smallvec::SmallVec::new(); let mut seen = vec![];
                for _ in 0..n { let k = rng.gen_range(0..3); if !dup_ids && seen.contains(&k) { continue; } seen.push(k); let t = fresh_ts(&mut rng); docs.push(Document::new(k, t, vec![step as u8])); }
                trace.push(format!("mset s{src} {:?}", docs.iter().map(|d: &Document| (d.id(), d.last_updated().to_string())).collect::<Vec<_>>()));
                let _ = ks.send(ecv::MultiSet { source: src, docs, ctx: None, _marker: PhantomData::<Faulty> }).await; },
            7..=8 => { let n = rng.gen_range(1..4); let mut docs = smallvec::SmallVec::new(); let mut seen = vec![];
                for _ in 0..n { let k = rng.gen_range(0..3); if !dup_ids && seen.contains(&k) { continue; } seen.push(k); docs.push(DocumentMetadata::new(k, fresh_ts(&mut rng))); }
                trace.push(format!("mdel s{src} {:?}", docs.iter().map(|d: &DocumentMetadata| (d.id, d.last_updated.to_string())).collect::<Vec<_>>()));
                let _ = ks.send(ecv::MultiDel { source: src, docs, _marker: PhantomData::<Faulty> }).await; },
            _ => { trace.push("purge".into()); let _ = ks.send(ecv::PurgeDeletes(PhantomData::<Faulty>)).await; },
        }
        store.fail_after.store(-1, Ordering::Relaxed);
        // probe
        let bytes = ks.send(ecv::Serialize).await.unwrap();
        let mut al = rkyv::AlignedVec::new(); al.extend_from_slice(&bytes);
        let set: OrSWotSet<2> = unsafe { rkyv::from_bytes_unchecked(&al).unwrap() };
        let (mut live, mut dead) = OrSWotSet::<2>::default().diff(&set); live.sort(); dead.sort();
        let meta: Vec<_> = store.iter_metadata("ks").await.unwrap().collect();
        let mut sl: Vec<_> = meta.iter().filter(|m| !m.2).map(|m| (m.0, m.1)).collect(); sl.sort();
        let mut sd: Vec<_> = meta.iter().filter(|m| m.2).map(|m| (m.0, m.1)).collect(); sd.sort();
        if live != sl || dead != sd { return Err(format!("after step {step}: set live={live:?} dead={dead:?}\n store live={sl:?} dead={sd:?}\n trace={trace:#?}")); }
    }
    Ok(())
}

fn main() {
    let iters: u64 = std::env::args().nth(1).map(|s| s.parse().unwrap()).unwrap_or(2000);
    for (dup, faults) in [(false, false), (false, true), (true, false)] {
        let mut bad = 0; let mut first = None;
        for i in 0..iters {
            let rt = tokio::runtime::Builder::new_current_thread().enable_all().start_paused(true).build().unwrap();
            if let Err(e) = rt.block_on(scenario(i, dup, faults)) { bad += 1; if first.is_none() { first = Some(format!("seed {i}: {e}")); } }
        }
        println!("dup_ids={dup} faults={faults}: scenarios={iters} mismatches={bad}");
        if let Some(f) = first { println!("{}", &f[..f.len().min(1800)]); }
    }
}
