use std::borrow::Cow;
use std::collections::BTreeMap;
use std::net::SocketAddr;
use std::sync::Arc;
use std::time::Duration;

use datacake_crdt::{HLCTimestamp, Key, OrSWotSet};
use datacake_eventual_consistency::test_utils::{MemStore, MemStoreError};
use datacake_eventual_consistency::verif as ecv;
use datacake_eventual_consistency::{BulkMutationError, Document, DocumentMetadata, EventuallyConsistentStore, PutContext, Storage};
use datacake_node::verif as nv;
use datacake_node::{Clock, ClusterMember, ClusterStatistics, Consistency, DCAwareSelector, RpcNetwork};
use datacake_rpc::verif as rv;
use datacake_rpc::Server;
use parking_lot::Mutex;
use rand::prelude::*;
use tokio::sync::watch;

#[derive(Clone, Debug)]
struct W { node: u8, ks: String, id: Key, ts: HLCTimestamp, data: Option<Vec<u8>> }
type Log = Arc<Mutex<Vec<W>>>;

struct RecStore { inner: MemStore, node: u8, log: Log }
#[async_trait::async_trait]
impl Storage for RecStore {
    type Error = MemStoreError;
    type DocsIter = <MemStore as Storage>::DocsIter;
    type MetadataIter = <MemStore as Storage>::MetadataIter;
    async fn get_keyspace_list(&self) -> Result<Vec<String>, Self::Error> { self.inner.get_keyspace_list().await }
    async fn iter_metadata(&self, k: &str) -> Result<Self::MetadataIter, Self::Error> { self.inner.iter_metadata(k).await }
    async fn remove_tombstones(&self, k: &str, keys: impl Iterator<Item = Key> + Send) -> Result<(), BulkMutationError<Self::Error>> { let keys: Vec<_> = keys.collect(); PURGED.fetch_add(keys.len() as u64, std::sync::atomic::Ordering::Relaxed); self.inner.remove_tombstones(k, keys.into_iter()).await }
    async fn put(&self, k: &str, d: Document) -> Result<(), Self::Error> {
        self.log.lock().push(W { node: self.node, ks: k.into(), id: d.id(), ts: d.last_updated(), data: Some(d.data().to_vec()) });
        self.inner.put(k, d).await
    }
    async fn multi_put(&self, k: &str, docs: impl Iterator<Item = Document> + Send) -> Result<(), BulkMutationError<Self::Error>> {
        let docs: Vec<_> = docs.collect();
        for d in &docs { self.log.lock().push(W { node: self.node, ks: k.into(), id: d.id(), ts: d.last_updated(), data: Some(d.data().to_vec()) }); }
        self.inner.multi_put(k, docs.into_iter()).await
    }
    async fn put_with_ctx(&self, k: &str, d: Document, _c: Option<&PutContext>) -> Result<(), Self::Error> { self.put(k, d).await }
    async fn mark_as_tombstone(&self, k: &str, id: Key, ts: HLCTimestamp) -> Result<(), Self::Error> {
        self.log.lock().push(W { node: self.node, ks: k.into(), id, ts, data: None });
        self.inner.mark_as_tombstone(k, id, ts).await
    }
    async fn mark_many_as_tombstone(&self, k: &str, docs: impl Iterator<Item = DocumentMetadata> + Send) -> Result<(), BulkMutationError<Self::Error>> {
        let docs: Vec<_> = docs.collect();
        for d in &docs { self.log.lock().push(W { node: self.node, ks: k.into(), id: d.id, ts: d.last_updated, data: None }); }
        self.inner.mark_many_as_tombstone(k, docs.into_iter()).await
    }
    async fn get(&self, k: &str, id: Key) -> Result<Option<Document>, Self::Error> { self.inner.get(k, id).await }
    async fn multi_get(&self, k: &str, ids: impl Iterator<Item = Key> + Send) -> Result<Self::DocsIter, Self::Error> { self.inner.multi_get(k, ids).await }
}

struct Node { id: u8, addr: SocketAddr, store: EventuallyConsistentStore<RecStore>, snap_tx: watch::Sender<nv::NodeMembership>, _server: Server }

async fn make_node(id: u8, addr: SocketAddr, log: Log) -> Node {
    let clock = Clock::new(id);
    let network = RpcNetwork::default();
    let server = Server::verif_in_memory(addr);
    let selector = nv::start_node_selector(addr, Cow::Borrowed("dc"), DCAwareSelector).await;
    let stats = ClusterStatistics::default();
    let me = ClusterMember::new(id, addr, "dc".into());
    let (snap_tx, snap_rx) = watch::channel(BTreeMap::from([(id, me.clone())]));
    let changes = nv::spawn_membership_watcher(id, network.clone(), selector.clone(), stats.clone(), snap_rx);
    let handle = nv::new_handle(me, clock, network, selector, stats, changes);
    let st = RecStore { inner: MemStore::default(), node: id, log };
    let store = ecv::create_store(st, Duration::from_secs(900), handle, &server).await.unwrap();
    Node { id, addr, store, snap_tx, _server: server }
}

async fn scenario(seed: u64, scen_no: u32, n: u8, with_repair_bg: bool) -> Result<(), String> {
    let mut rng = StdRng::seed_from_u64(seed);
    let base = Duration::from_secs(100_000_000);
    let start = tokio::time::Instant::now();
    datacake_crdt::verif::set_wall(Some(Box::new(move |node| Some(base + start.elapsed() + Duration::from_secs((node as u64 * 197) % 600)))));
    let log: Log = Default::default();
    let addrs: Vec<SocketAddr> = (0..n).map(|i| SocketAddr::from(([10, (scen_no >> 8) as u8, scen_no as u8, i + 1], 7000))).collect();
    let mut nodes = Vec::new();
    for i in 0..n { nodes.push(make_node(i + 1, addrs[i as usize], log.clone()).await); }
    let members: nv::NodeMembership = (0..n).map(|i| (i + 1, ClusterMember::new(i + 1, addrs[i as usize], "dc".into()))).collect();
    for nd in &nodes { nd.snap_tx.send(members.clone()).unwrap(); }
    tokio::time::sleep(Duration::from_millis(if with_repair_bg { 1200 } else { 100 })).await;
    // fault policy on consistency messages
    let chaos = Arc::new(Mutex::new((StdRng::seed_from_u64(seed ^ 0x9e37), true, [0u32; 4])));
    for a in &addrs {
        let chaos = chaos.clone();
        rv::set_policy(*a, Some(Arc::new(move |m: rv::MsgInfo| {
            let chaos = chaos.clone();
            Box::pin(async move {
                let (v, delay) = {
                    let mut c = chaos.lock();
                    if !c.1 || !m.uri.contains("ConsistencyService") { (0, 0) } else {
                        let r: u32 = c.0.gen_range(0..100);
                        let v = if r < 20 { 0 } else if r < 75 { 1 } else if r < 80 { 2 } else if r < 90 { 3 } else { 4 };
                        c.2[v.min(3)] += 1;
                        (v, c.0.gen_range(0..1_200_000))
                    }
                };
                match v { 0 => rv::Verdict::Deliver, 1 => rv::Verdict::Drop, 2 => rv::Verdict::Duplicate, 3 => rv::Verdict::DropReply,
                    _ => { tokio::time::sleep(Duration::from_millis(delay)).await; rv::Verdict::Deliver } }
            })
        })));
    }
    let nops = rng.gen_range(10..30);
    let mut tasks = vec![];
    for _ in 0..nops {
        let h = nodes[rng.gen_range(0..n as usize)].store.handle();
        let id: u64 = rng.gen_range(0..4);
        let lvl = *[Consistency::None, Consistency::None, Consistency::One, Consistency::All, Consistency::Quorum].choose(&mut rng).unwrap();
        let kind = *[0, 1, 2, 5, 5, 6, 6, 7, 8, 9].choose(&mut rng).unwrap();
        let val: Vec<u8> = (0..rng.gen_range(0..4)).map(|_| rng.gen()).collect();
        tasks.push(tokio::spawn(async move {
            let _ = match kind { 0..=4 => h.put("ks", id, val, lvl).await, 5..=7 => h.del("ks", id, lvl).await,
                8 => h.put_many("ks", [(id, val.clone()), ((id + 1) % 4, val)], lvl).await, _ => h.del_many("ks", [id, (id + 2) % 4], lvl).await };
        }));
        tokio::time::sleep(Duration::from_secs(rng.gen_range(0..2400))).await;
        if rng.gen_bool(0.7) { let g = ecv::group_of(&nodes[rng.gen_range(0..n as usize)].store); let ks = g.get_or_create_keyspace("ks").await; let _ = ks.send(ecv::PurgeDeletes(std::marker::PhantomData::<RecStore>)).await; }
    }
    for t in tasks { let _ = tokio::time::timeout(Duration::from_secs(3000), t).await; }
    chaos.lock().1 = false;
    tokio::time::sleep(Duration::from_secs(1500)).await; // let held messages drain
    // final round: every ordered pair, random order, random half delays
    let fp_rng = Arc::new(Mutex::new(StdRng::seed_from_u64(seed ^ 0x51)));
    ecv::set_failpoint(Some(Box::new(move |_name| Duration::from_millis(fp_rng.lock().gen_range(0..30)))));
    let mut pairs: Vec<(usize, usize)> = (0..n as usize).flat_map(|i| (0..n as usize).filter(move |j| *j != i).map(move |j| (i, j))).collect();
    pairs.shuffle(&mut rng);
    for (i, j) in pairs {
        let g = ecv::group_of(&nodes[i].store);
        let net = nodes[i].store.handle_net();
        let done = ecv::repair_from(g, net, nodes[j].id, nodes[j].addr).await;
        let peer_has = !ecv::group_of(&nodes[j].store).storage().iter_metadata("ks").await.unwrap().collect::<Vec<_>>().is_empty();
        if peer_has && !done.contains_key("ks") { return Err(format!("INCONCLUSIVE exchange {i}<-{j} did not complete")); }
    }
    // oracle
    let mut model: BTreeMap<Key, (HLCTimestamp, Option<Vec<u8>>)> = BTreeMap::new();
    for w in log.lock().iter() { let e = model.entry(w.id).or_insert((w.ts, w.data.clone())); if w.ts > e.0 { *e = (w.ts, w.data.clone()); } }
    let expect: BTreeMap<Key, (HLCTimestamp, Vec<u8>)> = model.into_iter().filter_map(|(k, (t, d))| d.map(|d| (k, (t, d)))).collect();
    for nd in &nodes {
        let h = nd.store.handle();
        let mut got = BTreeMap::new();
        for id in 0..4u64 { if let Some(d) = h.get("ks", id).await.unwrap() { got.insert(id, (d.last_updated(), d.data().to_vec())); } }
        if got != expect { return Err(format!("node {} reads {:?}\n expected {:?}\n verdicts={:?}", nd.id, got, expect, chaos.lock().2)); }
        // C02 style: set vs storage
        let g = ecv::group_of(&nd.store);
        let ks = g.get_or_create_keyspace("ks").await;
        let bytes = ks.send(ecv::Serialize).await.unwrap();
        let mut al = rkyv::AlignedVec::new(); al.extend_from_slice(&bytes);
        let set: OrSWotSet<2> = unsafe { rkyv::from_bytes_unchecked(&al).unwrap() };
        let (mut live, mut dead) = OrSWotSet::<2>::default().diff(&set); live.sort(); dead.sort();
        let mut meta: Vec<_> = g.storage().iter_metadata("ks").await.unwrap().collect(); meta.sort();
        let mut sl: Vec<_> = meta.iter().filter(|m| !m.2).map(|m| (m.0, m.1)).collect(); sl.sort();
        let mut sd: Vec<_> = meta.iter().filter(|m| m.2).map(|m| (m.0, m.1)).collect(); sd.sort();
        if live != sl || dead != sd { return Err(format!("SETSTORE node {} set live={:?} dead={:?} store live={:?} dead={:?}", nd.id, live, dead, sl, sd)); }
    }
    for a in &addrs { rv::unregister(*a); }
    Ok(())
}

trait NetOf { fn handle_net(&self) -> RpcNetwork; }
impl NetOf for EventuallyConsistentStore<RecStore> { fn handle_net(&self) -> RpcNetwork { ecv::network_of(self) } }

static PURGED: std::sync::atomic::AtomicU64 = std::sync::atomic::AtomicU64::new(0);
fn main() {
    let iters: u32 = std::env::args().nth(1).map(|s| s.parse().unwrap()).unwrap_or(200);
    let t0 = std::time::Instant::now();
    let (mut ok, mut div, mut ss, mut inc) = (0, 0, 0, 0);
    let mut first = vec![];
    for i in 0..iters {
        let rt = tokio::runtime::Builder::new_current_thread().enable_all().start_paused(true).build().unwrap();
        let r = rt.block_on(scenario(1000 + i as u64, i, 3, i % 2 == 0));
        match r { Ok(()) => ok += 1, Err(e) if e.starts_with("INCONCLUSIVE") => inc += 1, Err(e) if e.starts_with("SETSTORE") => { ss += 1; if first.len() < 2 { first.push(format!("i={i} {e}")); } }, Err(e) => { div += 1; if first.len() < 3 { first.push(format!("i={i} {e}")); } } }
    }
    println!("PURGED_TOTAL={}", PURGED.load(std::sync::atomic::Ordering::Relaxed));
    println!("scenarios={iters} ok={ok} read_divergence={div} set_store_mismatch={ss} inconclusive={inc} wall={:?}", t0.elapsed());
    for f in first { println!("--- {f}"); }
}
