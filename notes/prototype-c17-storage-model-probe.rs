use std::collections::{BTreeMap, BTreeSet};
use std::time::Duration;
use datacake_crdt::HLCTimestamp;
use datacake_eventual_consistency::test_utils::MemStore;
use datacake_eventual_consistency::{Document, DocumentMetadata, Storage};
use rand::prelude::*;

type Model = BTreeMap<String, BTreeMap<u64, (HLCTimestamp, Option<Vec<u8>>)>>;
const IDS: [u64; 5] = [0, 1, 2, 1 << 31, (1 << 63) - 1];
const KS: [&str; 3] = ["alpha", "β-keyspace", "k 3"];

async fn compare<S: Storage>(st: &S, m: &Model, mentioned: &BTreeSet<String>, what: &str) -> Result<(), String> {
    for ks in KS {
        let exp = m.get(ks).cloned().unwrap_or_default();
        let mut got: Vec<_> = st.iter_metadata(ks).await.map_err(|e| format!("{what}: iter_metadata err {e}"))?.collect(); got.sort();
        let mut want: Vec<_> = exp.iter().map(|(k, (t, d))| (*k, *t, d.is_none())).collect(); want.sort();
        if got != want { return Err(format!("{what}: iter_metadata({ks}) got {got:?} want {want:?}")); }
        for id in IDS {
            let g = st.get(ks, id).await.map_err(|e| format!("{what}: get err {e}"))?.map(|d| (d.last_updated(), d.data().to_vec()));
            let w = exp.get(&id).and_then(|(t, d)| d.clone().map(|d| (*t, d)));
            if g != w { return Err(format!("{what}: get({ks},{id}) got {:?} want {:?}", g.map(|x| (x.0, x.1.len())), w.map(|x| (x.0, x.1.len())))); }
        }
        let mg = st.multi_get(ks, IDS.into_iter()).await.map_err(|e| format!("{what}: multi_get err {e}"))?;
        let mut g: Vec<_> = mg.map(|d| (d.id(), d.last_updated(), d.data().to_vec())).collect(); g.sort();
        let mut w: Vec<_> = exp.iter().filter_map(|(k, (t, d))| d.clone().map(|d| (*k, *t, d))).collect(); w.sort();
        if g != w { return Err(format!("{what}: multi_get({ks}) got {} docs want {}", g.len(), w.len())); }
    }
    let list: BTreeSet<String> = st.get_keyspace_list().await.map_err(|e| format!("{what}: list err {e}"))?.into_iter().collect();
    for (ks, e) in m { if !e.is_empty() && !list.contains(ks) { return Err(format!("{what}: keyspace {ks} holds entries but is not listed {list:?}")); } }
    for l in &list { if !mentioned.contains(l) && !KS.contains(&l.as_str()) { return Err(format!("{what}: listed keyspace {l} never used")); } }
    Ok(())
}

async fn drive<S: Storage>(seed: u64, st: &S, m: &mut Model, mentioned: &mut BTreeSet<String>, steps: usize, what: &str, rng: &mut StdRng) -> Result<(), String> {
    let _ = seed;
    for step in 0..steps {
        let ks = *KS.choose(rng).unwrap(); mentioned.insert(ks.to_string());
        let ts = HLCTimestamp::new(Duration::from_secs(rng.gen_range(0..u32::MAX as u64)) + Duration::from_millis(rng.gen_range(0..250) * 4), rng.gen(), rng.gen());
        let payload = |rng: &mut StdRng| -> Vec<u8> { let n = *[0usize, 1, 7, 300, 70_000].choose(rng).unwrap(); (0..n).map(|i| (i * 31) as u8).collect() };
        let op = rng.gen_range(0..6);
        let desc;
        match op {
            0 => { let id = *IDS.choose(rng).unwrap(); let d = payload(rng); desc = format!("put {ks} {id} len{}", d.len()); st.put(ks, Document::new(id, ts, d.clone())).await.map_err(|e| format!("{what}: {desc} err {e}"))?; m.entry(ks.into()).or_default().insert(id, (ts, Some(d))); },
            1 => { let n = rng.gen_range(0..4); let docs: Vec<_> = (0..n).map(|_| Document::new(*IDS.choose(rng).unwrap(), ts, payload(rng))).collect(); desc = format!("multi_put {ks} {:?}", docs.iter().map(|d| d.id()).collect::<Vec<_>>());
                st.multi_put(ks, docs.clone().into_iter()).await.map_err(|e| format!("{what}: {desc} err {e}"))?; for d in docs { m.entry(ks.into()).or_default().insert(d.id(), (ts, Some(d.data().to_vec()))); } },
            2 => { let id = *IDS.choose(rng).unwrap(); desc = format!("tombstone {ks} {id}"); st.mark_as_tombstone(ks, id, ts).await.map_err(|e| format!("{what}: {desc} err {e}"))?; m.entry(ks.into()).or_default().insert(id, (ts, None)); },
            3 => { let n = rng.gen_range(0..4); let docs: Vec<_> = (0..n).map(|_| DocumentMetadata::new(*IDS.choose(rng).unwrap(), ts)).collect(); desc = format!("multi_tombstone {ks} {:?}", docs.iter().map(|d| d.id).collect::<Vec<_>>());
                st.mark_many_as_tombstone(ks, docs.clone().into_iter()).await.map_err(|e| format!("{what}: {desc} err {e}"))?; for d in docs { m.entry(ks.into()).or_default().insert(d.id, (ts, None)); } },
            4 => { let tomb: Vec<u64> = m.get(ks).map(|e| e.iter().filter(|(_, v)| v.1.is_none()).map(|(k, _)| *k).collect()).unwrap_or_default(); let pick: Vec<u64> = tomb.into_iter().filter(|_| rng.gen_bool(0.6)).collect(); desc = format!("remove_tombstones {ks} {pick:?}");
                st.remove_tombstones(ks, pick.clone().into_iter()).await.map_err(|e| format!("{what}: {desc} err {e}"))?; for k in pick { m.get_mut(ks).unwrap().remove(&k); } },
            _ => { desc = "read".into(); },
        }
        compare(st, m, mentioned, &format!("{what} step {step} after [{desc}]")).await?;
    }
    Ok(())
}

#[tokio::main]
async fn main() {
    let iters: u64 = std::env::args().nth(1).map(|s| s.parse().unwrap()).unwrap_or(100);
    let root = std::env::temp_dir().join(format!("p13-{}", std::process::id())); std::fs::create_dir_all(&root).unwrap();
    let mut res: BTreeMap<String, (u32, String)> = BTreeMap::new();
    for seed in 0..iters {
        // MemStore
        { let mut rng = StdRng::seed_from_u64(seed); let (mut m, mut me) = (Model::new(), BTreeSet::new()); let st = MemStore::default(); for ks in KS { st.put(ks, Document::new(424242, HLCTimestamp::new(Duration::from_secs(1), 0, 0), vec![])).await.unwrap(); st.mark_as_tombstone(ks, 424242, HLCTimestamp::new(Duration::from_secs(2), 0, 0)).await.unwrap(); st.remove_tombstones(ks, [424242u64].into_iter()).await.unwrap(); me.extend(KS.iter().map(|s| s.to_string())); }
          if let Err(e) = drive(seed, &st, &mut m, &mut me, 40, "mem", &mut rng).await { let k = format!("mem:{}", e.split(':').nth(1).unwrap_or("").split('(').next().unwrap_or("").trim()); let en = res.entry(k).or_insert((0, e)); en.0 += 1; } }
        // SQLite with reopen
        { let mut rng = StdRng::seed_from_u64(seed); let (mut m, mut me) = (Model::new(), BTreeSet::new()); let path = root.join(format!("s{seed}.db")); let mut err = None;
          for round in 0..3 { let st = datacake_sqlite::SqliteStorage::open(&path).await.unwrap();
            if let Err(e) = compare(&st, &m, &me, &format!("sqlite reopen{round}")).await { err = Some(e); break; }
            if let Err(e) = drive(seed, &st, &mut m, &mut me, 15, "sqlite", &mut rng).await { err = Some(e); break; } drop(st); tokio::time::sleep(Duration::from_millis(5)).await; }
          if let Some(e) = err { let k = format!("sqlite:{}", e.split(':').nth(1).unwrap_or("").split('(').next().unwrap_or("").trim()); let en = res.entry(k).or_insert((0, e)); en.0 += 1; } }
        // LMDB with reopen
        { let mut rng = StdRng::seed_from_u64(seed); let (mut m, mut me) = (Model::new(), BTreeSet::new()); let path = root.join(format!("l{seed}")); std::fs::create_dir_all(&path).unwrap(); let mut err = None;
          for round in 0..3 { let st = datacake_lmdb::LmdbStorage::open(&path).await.unwrap();
            if let Err(e) = compare(&st, &m, &me, &format!("lmdb reopen{round}")).await { err = Some(e); }
            if err.is_none() { if let Err(e) = drive(seed, &st, &mut m, &mut me, 15, "lmdb", &mut rng).await { err = Some(e); } }
            let env = st.handle().env().clone(); drop(st); env.prepare_for_closing().wait(); if err.is_some() { break; } }
          if let Some(e) = err { let k = format!("lmdb:{}", e.split(':').nth(1).unwrap_or("").split('(').next().unwrap_or("").trim()); let en = res.entry(k).or_insert((0, e)); en.0 += 1; } }
    }
    let _ = std::fs::remove_dir_all(&root);
    println!("sequences per backend = {iters}");
    for (k, (n, e)) in res { println!("{n:5} {k}\n        e.g. {}", &e[..e.len().min(330)]); }
}
