use std::sync::atomic::{AtomicU64, Ordering};
use std::sync::Arc;
use datacake_rpc::*;
use rkyv::{AlignedVec, Archive, Deserialize, Serialize};

#[repr(C)]
#[derive(Serialize, Deserialize, Archive, PartialEq, Debug, Clone)]
#[archive(check_bytes)]
pub struct Fixed { a: u32, b: u64, c: [u8; 12] }
#[repr(C)]
#[derive(Serialize, Deserialize, Archive, PartialEq, Debug, Clone)]
#[archive(check_bytes)]
pub struct Mixed { name: String, age: u32, tags: Vec<String>, blob: Vec<u8>, opt: Option<u64> }

fn crc(b: &[u8]) -> u32 { let mut c: u32 = !0; for &x in b { c ^= x as u32; for _ in 0..8 { c = if c & 1 != 0 { (c >> 1) ^ 0xEDB88320 } else { c >> 1 }; } } !c }
fn must_refuse<T: Archive>(frame: &[u8]) -> bool {
    if frame.len() < 4 { return true; }
    let (body, tr) = frame.split_at(frame.len() - 4);
    u32::from_le_bytes(tr.try_into().unwrap()) != crc(body) || body.len() < std::mem::size_of::<T::Archived>()
}
fn aligned(b: &[u8]) -> AlignedVec { let mut v = AlignedVec::with_capacity(b.len()); v.extend_from_slice(b); v }

pub struct Svc { calls: Arc<AtomicU64> }
impl RpcService for Svc { fn register_handlers(r: &mut ServiceRegistry<Self>) { r.add_handler::<Mixed>(); r.add_handler::<Fixed>(); } }
#[async_trait]
impl Handler<Mixed> for Svc { type Reply = u64; async fn on_message(&self, m: Request<Mixed>) -> Result<u64, Status> { self.calls.fetch_add(1, Ordering::SeqCst); Ok(m.age as u64 + m.blob.len() as u64) } }
#[async_trait]
impl Handler<Fixed> for Svc { type Reply = u64; async fn on_message(&self, m: Request<Fixed>) -> Result<u64, Status> { self.calls.fetch_add(1, Ordering::SeqCst); Ok(m.b) } }

fn mutants(frame: &[u8]) -> Vec<Vec<u8>> {
    let mut v = vec![];
    for i in 0..frame.len() * 8 { let mut f = frame.to_vec(); f[i / 8] ^= 1 << (i % 8); v.push(f); }
    for l in 0..frame.len() { v.push(frame[..l].to_vec()); }
    for e in 1..=8 { let mut f = frame.to_vec(); f.extend(std::iter::repeat(0u8).take(e)); v.push(f); let mut g = frame.to_vec(); g.extend_from_slice(&frame[..e.min(frame.len())]); v.push(g); }
    v.push(vec![0; 4]); v.push(vec![]);
    // checksummed-but-short bodies
    for l in [0usize, 1, 4, 8, 15] { let body: Vec<u8> = (0..l as u8).collect(); let mut f = body.clone(); f.extend_from_slice(&crc(&body).to_le_bytes()); v.push(f); }
    v
}

#[tokio::main]
async fn main() {
    std::panic::set_hook(Box::new(|_| {}));
    let fixed = Fixed { a: 7, b: 99, c: [3; 12] };
    let mixed = Mixed { name: "hello".into(), age: 5, tags: vec!["a".into(), "bc".into()], blob: vec![1, 2, 3], opt: Some(9) };
    let f1 = to_view_bytes(&fixed).unwrap().to_vec(); let f2 = to_view_bytes(&mixed).unwrap().to_vec();
    println!("frame sizes fixed={} mixed={} archived sizes {} {}", f1.len(), f2.len(), std::mem::size_of::<<Fixed as Archive>::Archived>(), std::mem::size_of::<<Mixed as Archive>::Archived>());
    // path (i): DataView::using
    let (mut n, mut must, mut accepted_bad, mut panics, mut refused_ok) = (0, 0, 0, 0, 0);
    for m in mutants(&f1) { n += 1; let mr = must_refuse::<Fixed>(&m); if mr { must += 1; }
        let r = std::panic::catch_unwind(|| DataView::<Fixed>::using(aligned(&m)).map(|v| v.b).ok());
        match r { Err(_) => { panics += 1; }, Ok(Some(_)) if mr => accepted_bad += 1, Ok(None) if mr => refused_ok += 1, _ => {} } }
    for m in mutants(&f2) { n += 1; let mr = must_refuse::<Mixed>(&m); if mr { must += 1; }
        let r = std::panic::catch_unwind(|| DataView::<Mixed>::using(aligned(&m)).map(|v| v.age).ok());
        match r { Err(_) => { panics += 1; }, Ok(Some(_)) if mr => accepted_bad += 1, Ok(None) if mr => refused_ok += 1, _ => {} } }
    println!("path(i): mutants={n} must_refuse={must} refused={refused_ok} accepted_though_bad={accepted_bad} panics={panics}");
    // path (ii): raw HTTP/2 POST to a live server
    let addr = { let l = std::net::TcpListener::bind("127.0.0.1:0").unwrap(); l.local_addr().unwrap() };
    let calls = Arc::new(AtomicU64::new(0));
    let server = Server::listen(addr).await.unwrap(); server.add_service(Svc { calls: calls.clone() });
    let client = hyper::Client::builder().http2_only(true).build_http::<hyper::Body>();
    let uri = |msg: &str| format!("http://{}/{}/{}", addr, std::any::type_name::<Svc>().replace(['<', '>'], "-"), msg.replace(['<', '>'], "-"));
    // sanity: valid frame is served
    let resp = client.request(http::Request::post(uri(std::any::type_name::<Mixed>())).body(hyper::Body::from(f2.clone())).unwrap()).await.unwrap();
    println!("valid raw POST -> {} calls={}", resp.status(), calls.load(Ordering::SeqCst));
    let (mut sent, mut bad_status, mut ran) = (0, 0, 0);
    for m in mutants(&f2).into_iter().step_by(7) { if !must_refuse::<Mixed>(&m) { continue; } sent += 1; let before = calls.load(Ordering::SeqCst);
        let resp = client.request(http::Request::post(uri(std::any::type_name::<Mixed>())).body(hyper::Body::from(m.clone())).unwrap()).await;
        match resp { Ok(r) => { let st = r.status(); let body = hyper::body::to_bytes(r.into_body()).await.unwrap();
                let code = DataView::<Status>::using(aligned(&body)).ok().map(|v| format!("{:?}", v.code));
                if st != http::StatusCode::BAD_REQUEST || code.as_deref() != Some("InvalidPayload") { bad_status += 1; if bad_status < 4 { println!("  mutant len {} -> {} {:?}", m.len(), st, code); } } },
            Err(e) => { bad_status += 1; if bad_status < 4 { println!("  mutant len {} -> transport error {e}", m.len()); } } }
        if calls.load(Ordering::SeqCst) != before { ran += 1; } }
    println!("path(ii): sent={sent} not-InvalidPayload={bad_status} handler-ran={ran}");
}
