use std::collections::BTreeMap;
use std::time::Duration;
use datacake_crdt::{HLCTimestamp, OrSWotSet};
use rand::prelude::*;

type Set = OrSWotSet<2>;
#[derive(Clone, Copy, Debug)]
struct Op { key: u64, ts: HLCTimestamp, del: bool }

fn enumerate(s: &Set) -> (Vec<(u64, HLCTimestamp)>, Vec<(u64, HLCTimestamp)>) {
    let (mut a, mut b) = Set::default().diff(s);
    a.sort(); b.sort(); (a, b)
}
fn live(s: &Set, keys: u64) -> Vec<Option<HLCTimestamp>> { (0..keys).map(|k| s.get(&k).copied()).collect() }

fn gen_ops(rng: &mut StdRng, origins: u8, per: usize, keys: u64, span_s: u64) -> Vec<Vec<Op>> {
    // per-origin increasing, globally distinct stamps
    let mut all = Vec::new();
    for o in 0..origins {
        let mut t = 10_000u64 + rng.gen_range(0..span_s.max(1));
        let mut v = Vec::new();
        for i in 0..per {
            t += rng.gen_range(1..=(span_s.max(2) / 2));
            v.push(Op { key: rng.gen_range(0..keys), ts: HLCTimestamp::new(Duration::from_secs(t), i as u16, o), del: rng.gen_bool(0.4) });
        }
        all.push(v);
    }
    all
}
// replica: gap-free prefix of each origin, origins interleaved randomly, random source per op
fn build_prefix(rng: &mut StdRng, ops: &[Vec<Op>]) -> (Set, Vec<Op>) {
    let mut s = Set::default();
    let mut idx: Vec<usize> = vec![0; ops.len()];
    let lens: Vec<usize> = ops.iter().map(|v| rng.gen_range(0..=v.len())).collect();
    let mut applied = vec![];
    loop {
        let cand: Vec<usize> = (0..ops.len()).filter(|&o| idx[o] < lens[o]).collect();
        if cand.is_empty() { break; }
        let o = *cand.choose(rng).unwrap();
        let op = ops[o][idx[o]]; idx[o] += 1;
        let src = rng.gen_range(0..2);
        if op.del { s.delete_with_source(src, op.key, op.ts); } else { s.insert_with_source(src, op.key, op.ts); }
        applied.push(op);
    }
    (s, applied)
}
fn build_subset(rng: &mut StdRng, ops: &[Vec<Op>]) -> Set {
    let mut s = Set::default();
    let mut flat: Vec<Op> = ops.iter().flatten().copied().filter(|_| rng.gen_bool(0.6)).collect();
    flat.shuffle(rng);
    for op in flat { let src = rng.gen_range(0..2); if op.del { s.delete_with_source(src, op.key, op.ts); } else { s.insert_with_source(src, op.key, op.ts); } }
    s
}
fn merged(a: &Set, b: &Set) -> Set { let mut x = a.clone(); x.merge(b.clone()); x }

fn main() {
    let mode = std::env::args().nth(1).unwrap_or("prefix".into());
    let span: u64 = std::env::args().nth(2).map(|s| s.parse().unwrap()).unwrap_or(20_000);
    let iters: u64 = std::env::args().nth(3).map(|s| s.parse().unwrap()).unwrap_or(200_000);
    let keys = 3u64;
    let mut fails: BTreeMap<&'static str, u64> = BTreeMap::new();
    let mut first: BTreeMap<&'static str, String> = BTreeMap::new();
    for i in 0..iters {
        let mut rng = StdRng::seed_from_u64(i);
        let ops = gen_ops(&mut rng, 3, 3, keys, span);
        let mk = |rng: &mut StdRng| if mode == "prefix" { build_prefix(rng, &ops).0 } else { build_subset(rng, &ops) };
        let (a, b, c) = (mk(&mut rng), mk(&mut rng), mk(&mut rng));
        let mut note = |name: &'static str, ok: bool, d: String| { if !ok { *fails.entry(name).or_default() += 1; first.entry(name).or_insert(d); } };
        let ab = merged(&a, &b); let ba = merged(&b, &a);
        note("commut_live", live(&ab, keys) == live(&ba, keys), format!("i={i} ops={ops:?}\n a={a:?}\n b={b:?}"));
        let ab_c = merged(&ab, &c); let a_bc = merged(&a, &merged(&b, &c));
        note("assoc_live", live(&ab_c, keys) == live(&a_bc, keys), format!("i={i}"));
        let abb = merged(&ab, &b);
        note("idem_live", live(&abb, keys) == live(&ab, keys), format!("i={i}"));
        note("idem_full", enumerate(&abb) == enumerate(&ab), format!("i={i}"));
        note("self_merge", enumerate(&merged(&a, &a)) == enumerate(&a), format!("i={i} a={a:?}"));
        // C05: diff then apply (removals first / modifications first) then re-diff empty
        for order in 0..2 {
            let mut r = a.clone();
            let (mut ch, mut rm) = r.diff(&b);
            ch.sort_by_key(|e| e.1); rm.sort_by_key(|e| e.1);
            if order == 0 { for (k, t) in &rm { r.delete_with_source(1, *k, *t); } for (k, t) in &ch { r.insert_with_source(1, *k, *t); } }
            else { for (k, t) in &ch { r.insert_with_source(1, *k, *t); } for (k, t) in &rm { r.delete_with_source(1, *k, *t); } }
            let (ch2, rm2) = r.diff(&b);
            note(if order == 0 { "rediff_rm_first" } else { "rediff_ch_first" }, ch2.is_empty() && rm2.is_empty(), format!("i={i} ops={ops:?}\n a={a:?}\n b={b:?}\n ch={ch:?} rm={rm:?} ch2={ch2:?} rm2={rm2:?}"));
        }
        // mutual repair -> same live
        let apply = |r: &mut Set, p: &Set| { let (mut ch, mut rm) = r.diff(p); ch.sort_by_key(|e| e.1); rm.sort_by_key(|e| e.1); for (k, t) in &rm { r.delete_with_source(1, *k, *t); } for (k, t) in &ch { r.insert_with_source(1, *k, *t); } };
        let (mut ra, mut rb) = (a.clone(), b.clone());
        apply(&mut ra, &b); apply(&mut rb, &a);
        note("mutual_repair_live", live(&ra, keys) == live(&rb, keys), format!("i={i} ops={ops:?}\n a={a:?}\n b={b:?}\n ra={ra:?}\n rb={rb:?}"));
    }
    println!("mode={mode} span={span} iters={iters} fails={fails:?}");
    for (k, v) in first.iter().take(3) { println!("--- first {k}: {v}"); }
}
