use std::borrow::Cow;
use std::collections::BTreeMap;
use std::net::SocketAddr;
use std::time::Duration;

use datacake_eventual_consistency::test_utils::MemStore;
use datacake_eventual_consistency::verif as ecv;
use datacake_eventual_consistency::{EventuallyConsistentStore, Storage};
use datacake_node::verif as nv;
use datacake_node::{Clock, ClusterMember, ClusterStatistics, Consistency, DCAwareSelector, RpcNetwork};
use datacake_rpc::Server;
use tokio::sync::watch;

struct Node {
    store: EventuallyConsistentStore<MemStore>,
    snap_tx: watch::Sender<nv::NodeMembership>,
    _server: Server,
}

async fn make_node(id: u8, addr: SocketAddr) -> Node {
    let clock = Clock::new(id);
    let network = RpcNetwork::default();
    let server = Server::verif_in_memory(addr);
    let selector = nv::start_node_selector(addr, Cow::Borrowed("dc"), DCAwareSelector).await;
    let stats = ClusterStatistics::default();
    let me = ClusterMember::new(id, addr, "dc".into());
    let (snap_tx, snap_rx) = watch::channel(BTreeMap::from([(id, me.clone())]));
    let changes = nv::spawn_membership_watcher(id, network.clone(), selector.clone(), stats.clone(), snap_rx);
    let handle = nv::new_handle(me, clock, network, selector, stats, changes);
    let store = ecv::create_store(MemStore::default(), Duration::from_secs(5), handle, &server).await.unwrap();
    Node { store, snap_tx, _server: server }
}

fn main() {
    let t0 = std::time::Instant::now();
    let rt = tokio::runtime::Builder::new_current_thread().enable_all().start_paused(true).build().unwrap();
    rt.block_on(async {
        let base = Duration::from_secs(100_000_000);
        let start = tokio::time::Instant::now();
        datacake_crdt::verif::set_wall(Some(Box::new(move |_n| Some(base + start.elapsed()))));
        let n = 3u8;
        let addrs: Vec<SocketAddr> = (0..n).map(|i| SocketAddr::from(([10, 0, 0, i + 1], 7000))).collect();
        let mut nodes = Vec::new();
        for i in 0..n { nodes.push(make_node(i + 1, addrs[i as usize]).await); }
        let members: nv::NodeMembership = (0..n).map(|i| (i + 1, ClusterMember::new(i + 1, addrs[i as usize], "dc".into()))).collect();
        for nd in &nodes { nd.snap_tx.send(members.clone()).unwrap(); }
        tokio::time::sleep(Duration::from_millis(1500)).await;
        let h0 = nodes[0].store.handle();
        let r = h0.put("ks", 1, b"hello".to_vec(), Consistency::All).await;
        println!("put all -> {:?}", r.is_ok());
        let r = h0.put("ks", 2, b"none".to_vec(), Consistency::None).await;
        println!("put none -> {:?}", r.is_ok());
        for (i, nd) in nodes.iter().enumerate() {
            let h = nd.store.handle();
            println!("node{} immediately: doc1={:?} doc2={:?}", i, h.get("ks", 1).await.unwrap().map(|d| d.last_updated().to_string()), h.get("ks", 2).await.unwrap().is_some());
        }
        tokio::time::sleep(Duration::from_millis(2500)).await;
        for (i, nd) in nodes.iter().enumerate() {
            let h = nd.store.handle();
            println!("node{} after batch: doc2={:?}", i, h.get("ks", 2).await.unwrap().is_some());
        }
        // put;put;del within one batch window, Consistency::None
        h0.put("ks2", 10, b"a".to_vec(), Consistency::None).await.unwrap();
        h0.del("ks2", 11, Consistency::None).await.unwrap();
        tokio::time::sleep(Duration::from_millis(2500)).await;
        for (i, nd) in nodes.iter().enumerate() {
            let g = ecv::group_of(&nd.store);
            let ks = g.get_or_create_keyspace("ks2").await;
            let bytes = ks.send(ecv::Serialize).await.unwrap();
            let mut al = rkyv::AlignedVec::new(); al.extend_from_slice(&bytes);
            let set: datacake_crdt::OrSWotSet<2> = unsafe { rkyv::from_bytes_unchecked(&al).unwrap() };
            let meta: Vec<_> = g.storage().iter_metadata("ks2").await.unwrap().collect();
            println!("node{} ks2 set.get(10)={:?} storage={:?}", i, set.get(&10).map(|t| t.to_string()), meta.iter().map(|m| (m.0, m.2)).collect::<Vec<_>>());
        }
        println!("virtual elapsed {:?}", start.elapsed());
    });
    println!("wall {:?}", t0.elapsed());
}
