#!/usr/bin/env python3
"""Regenerates MANIFEST.json from the table below (kept next to `check`, which holds the engine table)."""
import json, re, subprocess

src = open("/verif/check").read()
built = set(re.findall(r'^    "(C\d\d)": \(', src, re.M))

HOOK_COMMITS = subprocess.run(
    ["git", "-C", "/repo", "log", "--format=%h %s", "--grep=^verif hook"],
    stdout=subprocess.PIPE, text=True).stdout.strip().splitlines()

P = {
 "C01": dict(cat="exploration", technique="runtime monitoring: whole-cluster fault-injection runs in virtual time + LWW reference-model oracle over recorded storage writes",
   text="Real N-node clusters (public handle API, real distributor, poller, membership watcher, clocks) run on a paused-time runtime over the in-memory transport with a seeded per-message fault policy (drop, duplicate, lost reply, hold/reorder), node restarts on the same storage and, in a third of the scenarios, sparse knowledge (each write reaches one replica only). Quiescence is reached twice: by the system's own background repair (poller) where the scenario allows it, and by a final pairwise repair round (premise established from repair_from's outcome); then every node's reads are compared with each other and with a last-writer-wins model built from the recorded storage writes. Conservation of operations (distinct stamps of an origin per id and kind never exceed the operations issued there) catches re-stamped or fabricated operations even when the cluster converges on them. A second kind of scenario lets operations race a repair exchange (slow storage; the state request, the document fetch or the poll held; the racing operations issued at the polled or at the polling node) and requires convergence by the poller's own cycles. Sampled schedules, not all.",
   note="hooks H1 H2 H3 H4 H5; MemStore/SQLite backends; stamps within one forgiveness period by construction and re-checked", ref="§5 C01"),
 "C02": dict(cat="fault_enumeration", technique="runtime monitoring: set/store agreement probe after every keyspace request under injected storage failures",
   text="Real keyspace actors and ConsistencyService driven with generated request sequences (arbitrary stamps, origins, sources, duplicates, purges) over a FaultyStore that fails single calls and bulk calls after j of n documents; after EVERY completed request the serialized set is compared with iter_metadata; which items of a partly failed bulk call were written rotates (leading / smallest ids / trailing / every other).",
   note="hooks H2 H4; probe runs only between requests (actor quiescent)", ref="§5 C02"),
 "C03": dict(cat="exploration", technique="runtime monitoring: algebraic-law oracle over generated replica triples executed on the real OrSWotSet (small universe exhaustive)",
   text="Merge laws (commutative, associative, idempotent, re-merge changes nothing, merged replicas indistinguishable - also after the same further delivery of any operation of the history) evaluated on replica triples built through the public mutators under the two stated preconditions; exhaustive for a 2-origin x 2-op universe, random beyond; Miri sample in the thorough tier.",
   note="preconditions enforced by the generator and re-checked on the recorded history (a slip is inconclusive)", ref="§5 C03"),
 "C04": dict(cat="exploration", technique="runtime monitoring: LWW reference model after every operation, all arrival permutations of a bounded universe executed",
   text="Every ordered selection of <=4 (thorough: 5) distinct stamps from a 6-stamp pool (tie-break cases included) x keys x kinds x sources is executed on the real set (N=1 and N=2) with an LWW model alongside; return value == view changed == will_apply before, after every step; re-deliveries of one operation of the sequence at every later position (lengths <= 3) and in 40 % of the random larger sequences beyond the bound.",
   note="all stamps inside one forgiveness window (the statement's side condition)", ref="§5 C04"),
 "C05": dict(cat="exploration", technique="runtime monitoring: reference-diff oracle and apply-then-rediff check on generated replica pairs",
   text="Real diff() compared as sets with a reference computed from observations only; returned lists applied the way the actor applies a repair batch in both batch orders, then diff must be empty; mutual repair gives equal lookups; a third regime with MISSED operations (outside the convergence precondition) for the first sentence only.",
   note="second sentence checked through the read-repair source of a two-source set (how the system applies it); single-source only inside one window", ref="§5 C05"),
 "C06": dict(cat="fault_enumeration", technique="runtime monitoring: per-call storage inspection on real clusters with every subset of selected replicas failing",
   text="Real clusters of every layout up to 3 DCs x 3 nodes (39 layouts) in virtual time, including clusters that grow while calls are issued: for each call, consistency level, operation kind and failing replica subset the issuer's and peers' storage is inspected at the moment the call returns; Err carries the acknowledgement count the harness let through; a third of the calls repeated identically under the same failures; bounded-progress restatement of 'replicated later' (one explicit repair round after faults stop).",
   note="hooks H1-H4; acknowledgement = request delivered, remote storage succeeded, reply not dropped", ref="§5 C06"),
 "C07": dict(cat="fault_enumeration", technique="runtime monitoring: crash-point enumeration (after and inside requests) with restart on the same storage and set==store oracle",
   text="Request histories (single and bulk, bulk entries sharing one stamp, extreme ids, 16-id universes, point lookups before the first write of a keyspace and between requests) against real keyspace actors; a crash point after every request and inside requests (storage write done, in-memory update not); a fresh group loaded from the same storage must serialize exactly what iter_metadata holds, and every mutation visible before the stop is present with the same stamp AND kind or superseded by an acknowledged delete. MemStore in process; SQLite files reopened; LMDB with a real process exit between the two phases.",
   note='crash = task drop (MemStore/SQLite) or process exit (LMDB); durability of the backends under power loss is out of scope', ref="§5 C07"),
 "C08": dict(cat="exploration", technique="runtime monitoring: purge invariants on reachable sets + hour-scale cluster histories against a never-purging LWW model",
   text="Local: at every purge of generated hour-scale histories lookups/live listing unchanged, only reported tombstones vanish, afterwards and after every later step (incl. operations arriving late, behind newer ones of their origin) every operation of the deleting origin not newer than a purged delete is refused. Actor: a purge racing newer puts of the purged ids over slow storage - every re-put id stays live in storage. Cluster: timely histories over virtual hours with the real purge task and explicit purges, final state == LWW model.",
   note="timeliness (delay + skew < forgiveness) by construction and re-checked", ref="§5 C08"),
 "C09": dict(cat="exploration", technique="runtime monitoring: shadow-state monitor on the real HLC with an injected wall clock",
   text="Every send/recv on the real HLCTimestamp is checked against a shadow of everything issued/accepted under stalled, backward- and forward-jumping injected wall clocks; boundary grid of (old, wall, remote) x counters exhaustive.",
   note="hook H1; injected wall normalised to the 4 ms grid like the real reading", ref="§5 C09"),
 "C10": dict(cat="exploration", technique="runtime monitoring: round-trip and ordering oracles over boundary grids; parse fuzz under catch_unwind",
   text="All encodings round-trip on a boundary grid x full fractional range, ordering equals tuple order on grid pairs and random pairs, from_str on millions of generated strings (multi-byte characters at any position included) and on every character-level mutant (replace / insert / delete at every position x 11 single- and multi-byte characters) of 30 valid text forms returns Ok/Err and never panics; every oracle evaluation under catch_unwind (a library panic on a valid triple is a violation).",
   note="-", ref="§5 C10"),
 "C11": dict(cat="exploration", technique="runtime monitoring: history checker (uniqueness, per-task monotonicity, register happens-before) over concurrent Clock callers",
   text="T tasks x M calls on the real Clock actor on current-thread and multi-thread runtimes with random yields; all stamps pairwise distinct, per-task strictly increasing, every get_time after a completed register_ts exceeds it; bursts beyond the actor's request queue, rounds that use up one logical tick (counter past the back-pressure limit), remote stamps on exactly the clock's own tick with a higher counter, and sequences under an injected wall clock that moves on while the clock is idle.",
   note="parallel interleavings are sampled", ref="§5 C11"),
 "C12": dict(cat="fault_enumeration", technique="runtime monitoring + sanitizers: frame-mutation enumeration with independent CRC/size oracle; Miri and ASan on the view path",
   text="Round trips of generated message families over real loopback HTTP/2; for each valid frame every single-bit flip, truncation and extension goes to DataView::using and as a raw POST to a live server; must-refuse decided by an independent CRC-32 and archived-size oracle; small scalar messages (alignment 1-2, odd sizes); a field-less message (zero-sized archive, frame = trailer only); messages with reference-counted fields (one pointee in two fields, the same Arc in consecutive messages serialized on one thread, recycled addresses); large frames (4 KiB..300 KiB) with bit flips concentrated where a block-wise checksum would be blind; Miri (bounds/alignment) on the view path, debug and release builds.",
   note="hook H2 for bulk; real TCP for samples", ref="§5 C12"),
 "C13": dict(cat="exploration", technique="runtime monitoring: registry reference model, all add/remove histories to length 5 executed",
   text="All histories of add/remove up to length 5 over five universes of services (four plain services sharing message types; generic services Gen<Alpha>/Gen<Beta> whose names differ only by type parameter; three service types registered under ONE name; names that are collision pairs of weak string hashes; names related as strings: strict prefix, suffix, case-only difference); rounds in which two threads change DIFFERENT services at the same instant (each service must end as its own thread left it); after every step every (service,message) pair is called and compared with the set-of-registered-names model; sample on real TCP; requests to a registered service racing additions/removals of other services on other threads.",
   note="hook H2 (same ServerState code as TCP)", ref="§5 C13"),
 "C14": dict(cat="fault_enumeration", technique="runtime monitoring: turmoil network-fault simulations with exactly-once / no-swap / timeout-bound history checker",
   text="Seeded turmoil simulations (partition, hold, release, repair at generated instants; sequential and concurrent requests, handler latency, client timeouts, clients that are clones of one configured client, requests through send(&msg) and through the by-value send_owned alternately) with a per-request history: reply matches request, handler ran at most once, errors only connection/timeout, completion within the timeout. Complements on real loopback TCP: many concurrent requests multiplexed over one channel, replies matched to requests; and the same history checker (incl. handler errors with large messages, which must arrive as themselves) behind a TCP forwarder that cuts (FIN/RST) or stalls connections at seeded moments, also in the middle of a reply body (handler ran at most once, errors only connection/timeout, answer within timeout + a generous real-time bound judged only when the process' own scheduling lag was small). Thorough adds ThreadSanitizer on the multiplex workload.",
   note="datacake-rpc's own `simulation` feature; bodies <= 100 B because of a turmoil 0.4.0 defect", ref="§5 C14"),
 "C15": dict(cat="exploration", technique="runtime monitoring: selection oracle over all layouts <= 4x4, positions, levels and prior-selection histories (executed exhaustively)",
   text="Every layout of 1-4 DCs x 1-4 nodes, every local position, level and history of <=2 prior selections through the public NodeSelector trait, plus membership-update sequences through the real selector actor and snapshot sequences through the real membership WATCHER that feeds it (15 % of the updates meet a backlog of 150 queued selection requests, more than the actor's queue holds) (replacement with unchanged counts, data-centre moves); result must be distinct live non-local peers of the required count, NotEnoughNodes only when too few exist.",
   note="hook H3 for the actor part", ref="§5 C15"),
 "C16": dict(cat="exploration", technique="runtime monitoring: fold-the-deltas oracle over all snapshot sequences, subscription points and read placements",
   text="All membership snapshot sequences to length 4 over 3 ids sharing a pool of 3 addresses (34 states) driven through the real watcher task, every subscription point and slow-reader placement; folded deltas must equal the last snapshot at quiescence. End to end: real nodes join, leave and change address, and the replication layer's addressed peers (task distributor) and polled peers (repair poller, watched at the transport over two quiescent cycles after a node joined and left / flapped / moved) are compared with the live membership; the selector as fed by the watcher is judged after every published change; membership changes handed over DURING a burst of 100..10 000 writes inside one batch window (the distributor's queue full of mutations) must still take effect for the next write.",
   note="hook H3; synchronisation by awaiting the watcher's output; three recorded findings (lossy delta channel) keyed by signature", ref="§5 C16"),
 "C17": dict(cat="exploration", technique='runtime monitoring + sanitizers: map reference model over generated Storage call sequences with close/reopen; ASan and valgrind memcheck over the FFI backends',
   text="SQLite (file, memory), LMDB and MemStore driven with generated contract-conforming call sequences (keyspace names with unicode / spaces, number-like names equal as numbers but different as text, names differing in case only; keyspaces first touched by a point lookup in a lifetime of the opened store; extreme ids, empty/large payloads, tombstone-first, duplicates, bulk calls of 20..1600 items - also naming an id twice) against a map model compared after every call (full comparison, or list-first / partial reads so that a read cannot mask a later one), reopen after random prefixes. LMDB sequences run in child processes (a reproducible crash is a violation). Thorough: the same workload under AddressSanitizer and under valgrind memcheck (the C libraries ASan does not instrument).",
   note="keyspace-list rule relaxed where the contract is silent", ref="§5 C17"),
 "C18": dict(cat="exploration", technique="runtime monitoring: lost-update checker over concurrent first uses of a keyspace; ThreadSanitizer on the same workload (thorough)",
   text="k tasks concurrently get-or-create a fresh keyspace - or two or three DIFFERENT fresh keyspaces at once - through every entry point and send one acknowledged mutation each (puts and deletes; group, consistency service incl. the distributor's batch message, state request followed by a repair write); a second scenario races first uses against the node's own repair from a peer holding the names; a third starts REAL nodes (the library's own create()) on slow pre-populated storage while a peer's first write for a persisted keyspace arrives; the set a later lookup serializes must contain all k, and the keyspace must be advertised by get_keyspace_info with a stamp covering them; creation counter observes overlap.",
   note="hook H6; parallel interleavings sampled", ref="§5 C18"),
 "C19": dict(cat="exploration", technique="runtime monitoring + sanitizers: state-equivalence probe between sender and receiver; Miri on the unchecked decode path",
   text="Keyspace states of many sizes (built by request histories, shadowed by an independently maintained reference set) fetched through ReplicationClient::get_state and compared with the sender's set and the shadow by listing and will_apply battery; the same peer fetches again after a purge (no put/delete) and after a further put - each answer is the sender's state of its moment; states fetched WHILE a writer runs must contain every document whose change stamp is <= the stamp they travel with; every bit of small replies corrupted must yield Err; large batches in child processes (abort = violation); sample over real TCP including a state of 150 000 entries (serialized form above 2 MiB; thorough 400 000); Miri runs the whole decode path, ASan the thorough tier.",
   note="hook H2", ref="§5 C19"),
}

checks = []
na = []
for pid in sorted(P):
    m = P[pid]
    if pid in built:
        checks.append({
            "property_id": pid,
            "quick_cmd": f"./check {pid} --tier quick",
            "thorough_cmd": f"./check {pid} --tier thorough",
            "evidence_file": f"/verif/evidence/{pid}.json",
            "replay_cmd_template": f"./check {pid} --replay {{path}}",
            "engine": "simrpc" if pid == "C14" else "mon",
            "level_claimed": {"category": m["cat"], "text": m["text"], "design_ref": m["ref"]},
            "level_note": m["note"],
            "technique": m["technique"],
        })
    else:
        na.append({"property_id": pid, "reason": "monitor not built yet (work in progress; designed in DESIGN.md " + m["ref"] + ")"})

manifest = {
    "version": 1,
    "setup_cmd": "cd /verif && ./setup.sh",
    "hooks": {
        "guard": "--cfg datacake_verif",
        "enable": "RUSTFLAGS='--cfg tokio_unstable --cfg datacake_verif' via /verif/harness/.cargo/config.toml; the harness crates path-depend on /repo's crates",
        "baseline_off_cmd": "/verif/baseline_off.sh",
        "source_commits": [l.split()[0] for l in HOOK_COMMITS],
        "add_only": True,
    },
    "engines": [
        {"name": "mon", "path": "/verif/harness/mon", "serves_properties": sorted(built),
         "kind_free_text": "Rust monitor binary: reference-model oracles, history checkers and invariant probes run against the real datacake crates"},
        {"name": "simrpc", "path": "/verif/harness-sim", "serves_properties": ["C14"],
         "kind_free_text": "datacake-rpc built with its `simulation` feature inside turmoil; fault schedules + per-request history checker, simulations in child processes"},
    ],
    "checks": checks,
    "not_applicable": na,
    "notes": "Technique family: runtime monitoring and sanitizers. Every check rebuilds the harness against /repo's working tree. known_findings.json lists recorded/fixed defects.",
}
json.dump(manifest, open("/verif/MANIFEST.json", "w"), indent=1)
print("checks:", [c["property_id"] for c in checks], "not_applicable:", [n["property_id"] for n in na])
