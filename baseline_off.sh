#!/bin/bash
# Runs the repository's pinned baseline (BASELINE.json: 69 stable tests) with the
# verification guard OFF (no --cfg datacake_verif) and checks that every stable test passes.
# Exit 0 iff all stable_pass tests passed.
set -u
export CARGO_NET_OFFLINE=true
cd /repo || exit 2
OUT=$(mktemp)
cargo nextest run --workspace --no-fail-fast --offline --test-threads 8 \
    --status-level all --final-status-level none --failure-output never --success-output never \
    >"$OUT" 2>&1
python3 - "$OUT" <<'EOF'
import json, re, sys
out = open(sys.argv[1], errors="replace").read()
base = json.load(open("/root/.vp/BASELINE.json"))["stable_pass"]
passed = set()
for m in re.finditer(r"^\s*PASS\s+\[[^\]]*\]\s+(?:\(\s*\d+/\d+\)\s+)?(\S+)\s+(\S+)\s*$", out, re.M):
    binary, test = m.group(1), m.group(2)
    passed.add(f"{binary}::{test}")
    passed.add(f"{binary.split('::')[0]}::{test}")
def norm(name):
    return name
missing = []
for t in base:
    crate, rest = t.split("::", 1)
    cands = {t, f"{crate}::{rest}"}
    # integration tests are reported as "<crate>::<test-binary> <test>"
    if not (cands & passed):
        missing.append(t)
print(f"baseline (guard off): {len(base) - len(missing)}/{len(base)} stable tests passed")
for t in missing:
    print("NOT PASSED:", t)
sys.exit(1 if missing else 0)
EOF
RC=$?
rm -f "$OUT"
exit $RC
