//! Engine E4: datacake-rpc under turmoil's simulated network (the crate's own
//! `simulation` feature), with generated fault schedules and a per-request
//! history checker. Serves C14.
//!
//!   simrpc C14 [--tier quick|thorough] [--seed N] [--out report.json] [--replay file]
//!   simrpc child --seed N --from A --to B --lines file        (internal)
//!
//! Simulations run in child processes: a panic inside a simulation can abort
//! the process (h2 asserts in a destructor while unwinding). A child appends
//! one JSON line per finished simulation; when it dies the parent knows which
//! simulation killed it, classifies it by the first panic location and
//! restarts after it.
#[path = "../../harness/mon/src/common.rs"]
#[allow(dead_code)]
mod common;

use std::collections::BTreeMap;
use std::io::Write;
use std::net::{IpAddr, Ipv4Addr, SocketAddr};
use std::sync::{Arc, Mutex};
use std::time::Duration;

use common::*;
use datacake_rpc::{async_trait, Channel, ErrorCode, Handler, Request, RpcClient, RpcService, Server, ServiceRegistry, Status};
use rand::prelude::*;
use rkyv::{Archive, Deserialize, Serialize};
use serde_json::{json, Value};
use turmoil::Builder;

const PORT: u16 = 9999;

#[repr(C)]
#[derive(Serialize, Deserialize, Archive, Debug)]
#[archive(check_bytes)]
pub struct Req {
    id: u64,
    delay_ms: u32,
    reply_len: u32,
    /// fault the handler triggers itself just before replying: 0 none, 1 partition, 2 hold
    self_fault: u8,
    client: u8,
}

#[repr(C)]
#[derive(Serialize, Deserialize, Archive, Debug)]
#[archive(check_bytes)]
pub struct Rep {
    id: u64,
    payload: Vec<u8>,
}

fn payload(id: u64, len: u32) -> Vec<u8> {
    (0..len).map(|i| (id as u32).wrapping_mul(31).wrapping_add(i) as u8).collect()
}

type Calls = Arc<Mutex<BTreeMap<u64, u32>>>;

#[derive(Clone)]
pub struct Svc {
    calls: Calls,
    name: String,
}

impl RpcService for Svc {
    fn register_handlers(r: &mut ServiceRegistry<Self>) {
        r.add_handler::<Req>();
    }
}

#[async_trait]
impl Handler<Req> for Svc {
    type Reply = Rep;
    async fn on_message(&self, m: Request<Req>) -> Result<Rep, Status> {
        let (id, d, l, f, c) = (m.id, m.delay_ms, m.reply_len, m.self_fault, m.client);
        *self.calls.lock().unwrap().entry(id).or_default() += 1;
        if d > 0 {
            tokio::time::sleep(Duration::from_millis(d as u64)).await;
        }
        match f {
            1 => turmoil::partition(format!("client{c}"), self.name.clone()),
            2 => turmoil::hold(format!("client{c}"), self.name.clone()),
            _ => {},
        }
        Ok(Rep { id, payload: payload(id, l) })
    }
}

#[derive(Clone, Debug)]
struct PlanReq {
    id: u64,
    server: usize,
    delay_ms: u32,
    reply_len: u32,
    gap_ms: u64,
    concurrent: bool,
    self_fault: u8,
}

#[derive(Clone, Debug)]
struct Plan {
    servers: usize,
    clients: Vec<(Option<u64>, Vec<PlanReq>)>, // (timeout ms, requests)
    nemesis: Vec<(u64, u8, usize, usize)>,      // (wait ms, action, client, server)
}

fn gen_plan(seed: u64, idx: u64) -> Plan {
    let mut rng = rng_for(seed, 0xC14, idx);
    let servers = rng.gen_range(1..=2usize);
    let nclients = rng.gen_range(1..=3usize);
    let mut next_id = 1u64;
    let mut clients = Vec::new();
    for _ in 0..nclients {
        let timeout = *[Some(2_000u64), Some(2_000), Some(5_000), None].choose(&mut rng).unwrap();
        let n = rng.gen_range(3..14);
        // concurrent FIRST use of a channel: the first requests of a client may all be concurrent
        let burst_first = rng.gen_bool(0.35);
        let reqs = (0..n)
            .map(|k| {
                let id = next_id;
                next_id += 1;
                PlanReq {
                    id,
                    server: rng.gen_range(0..servers),
                    delay_ms: *[0u32, 0, 0, 50, 800, 2_500, 3_000].choose(&mut rng).unwrap(),
                    reply_len: *[8u32, 16, 48, 100].choose(&mut rng).unwrap(),
                    gap_ms: if burst_first && k < 4 { 0 } else { rng.gen_range(0..600) },
                    concurrent: (burst_first && k < 4) || rng.gen_bool(0.4),
                    self_fault: if rng.gen_bool(0.06) { rng.gen_range(1..=2) } else { 0 },
                }
            })
            .collect();
        clients.push((timeout, reqs));
    }
    let nemesis = (0..rng.gen_range(0..9)).map(|_| (rng.gen_range(0..1_500), rng.gen_range(0..4u8), rng.gen_range(0..nclients), rng.gen_range(0..servers))).collect();
    Plan { servers, clients, nemesis }
}

#[derive(Default)]
struct SimOut {
    problems: Vec<(String, Value)>,
    ok: u64,
    conn_err: u64,
    timeouts: u64,
    hung_without_timeout: u64,
    requests: u64,
    by_value: u64,
    fault_events: u64,
    faults_overlapping_requests: u64,
    sim_error: Option<String>,
}

fn run_sim(seed: u64, idx: u64) -> SimOut {
    let plan = gen_plan(seed, idx);
    let mut sim = Builder::new()
        .simulation_duration(Duration::from_secs(200))
        .build_with_rng(Box::new(rng_for(seed, 0xC14A, idx)));
    let calls: Calls = Default::default();
    for s in 0..plan.servers {
        let c2 = calls.clone();
        let name = format!("server{s}");
        let n2 = name.clone();
        sim.host(name, move || {
            let c = c2.clone();
            let n = n2.clone();
            async move {
                let server = Server::listen(SocketAddr::new(IpAddr::V4(Ipv4Addr::UNSPECIFIED), PORT)).await?;
                server.add_service(Svc { calls: c, name: n });
                tokio::time::sleep(Duration::from_secs(10_000)).await;
                Ok(())
            }
        });
    }
    let out = Arc::new(Mutex::new(SimOut::default()));
    // (start ms, end ms) of every request, to count faults that overlapped one
    let spans: Arc<Mutex<Vec<(u128, u128)>>> = Default::default();
    let fault_times: Arc<Mutex<Vec<u128>>> = Default::default();
    let script = plan.nemesis.clone();
    let (nservers, nclients) = (plan.servers, plan.clients.len());
    let ft = fault_times.clone();
    sim.client("nemesis", async move {
        let t0 = tokio::time::Instant::now();
        for (wait, act, c, s) in script {
            tokio::time::sleep(Duration::from_millis(wait)).await;
            let (a, b) = (format!("client{c}"), format!("server{s}"));
            ft.lock().unwrap().push(t0.elapsed().as_millis());
            match act {
                0 => turmoil::partition(a, b),
                1 => turmoil::repair(a, b),
                2 => turmoil::hold(a, b),
                _ => turmoil::release(a, b),
            }
        }
        // the network heals in the end: everything still pending must finish or fail
        tokio::time::sleep(Duration::from_millis(4_000)).await;
        for c in 0..nclients {
            for s in 0..nservers {
                turmoil::repair(format!("client{c}"), format!("server{s}"));
                turmoil::release(format!("client{c}"), format!("server{s}"));
            }
        }
        Ok(())
    });
    for (ci, (timeout, reqs)) in plan.clients.iter().cloned().enumerate() {
        let out = out.clone();
        let spans = spans.clone();
        sim.client(format!("client{ci}"), async move {
            let t0 = tokio::time::Instant::now();
            let channels: Vec<Channel> = (0..nservers).map(|s| Channel::connect(SocketAddr::new(turmoil::lookup(format!("server{s}")), PORT))).collect();
            // one configured client per server; requests go through it or - as one does when
            // handing a client to a spawned task - through a clone of it
            let bases: Vec<RpcClient<Svc>> = channels
                .iter()
                .map(|ch| {
                    let mut c = RpcClient::<Svc>::new(ch.clone());
                    if let Some(t) = timeout {
                        c.set_timeout(Duration::from_millis(t));
                    }
                    c
                })
                .collect();
            let mut tasks = Vec::new();
            for r in reqs {
                let client = bases[r.server].clone();
                let out = out.clone();
                let spans = spans.clone();
                let req = r.clone();
                let fut = async move {
                    let start = t0.elapsed().as_millis();
                    let msg = Req { id: req.id, delay_ms: req.delay_ms, reply_len: req.reply_len, self_fault: req.self_fault, client: ci as u8 };
                    // a client without a timeout may legitimately wait forever on a dead link: the harness stops waiting after 60 s
                    // half of the requests go through the by-value API (send_owned), half through send(&msg)
                    let by_value = req.id % 2 == 1;
                    let res = if by_value {
                        tokio::time::timeout(Duration::from_secs(60), client.send_owned(msg)).await
                    } else {
                        tokio::time::timeout(Duration::from_secs(60), client.send(&msg)).await
                    };
                    let end = t0.elapsed().as_millis();
                    spans.lock().unwrap().push((start, end));
                    let mut o = out.lock().unwrap();
                    o.requests += 1;
                    if by_value {
                        o.by_value += 1;
                    }
                    let ctx = |extra: Value| json!({"request": req.id, "client": ci, "server": req.server, "handler_delay_ms": req.delay_ms, "reply_len": req.reply_len, "client_timeout_ms": timeout, "sent_at_ms": start as u64, "completed_at_ms": end as u64, "observed": extra});
                    match res {
                        Err(_) => {
                            o.hung_without_timeout += 1;
                            if timeout.is_some() {
                                o.problems.push(("request-outlived-its-timeout".into(), ctx(json!("no answer after 60 simulated seconds"))));
                            }
                        },
                        Ok(Ok(rep)) => {
                            o.ok += 1;
                            if rep.id != req.id {
                                o.problems.push(("reply-of-another-request".into(), ctx(json!({"reply_id": rep.id}))));
                            } else if rep.payload.as_slice() != payload(req.id, req.reply_len).as_slice() {
                                o.problems.push(("reply-payload-differs-from-what-the-handler-computed".into(), ctx(json!({"reply_len": rep.payload.len()}))));
                            }
                        },
                        Ok(Err(e)) => {
                            match e.code {
                                ErrorCode::ConnectionError => o.conn_err += 1,
                                ErrorCode::Timeout => o.timeouts += 1,
                                _ => o.problems.push(("error-other-than-connection-or-timeout".into(), ctx(json!({"code": format!("{:?}", e.code), "message": e.message})))),
                            }
                        },
                    }
                    if let Some(t) = timeout {
                        // one simulation tick of slack
                        if end - start > t as u128 + 50 {
                            o.problems.push(("answer-later-than-the-configured-timeout".into(), ctx(json!({"took_ms": (end - start) as u64}))));
                        }
                    }
                };
                if r.concurrent {
                    tasks.push(tokio::spawn(fut));
                } else {
                    fut.await;
                }
                if r.gap_ms > 0 {
                    tokio::time::sleep(Duration::from_millis(r.gap_ms)).await;
                }
            }
            for t in tasks {
                let _ = t.await;
            }
            Ok(())
        });
    }
    let r = sim.run();
    let mut o = std::mem::take(&mut *out.lock().unwrap());
    if let Err(e) = r {
        o.sim_error = Some(e.to_string());
    }
    for (id, n) in calls.lock().unwrap().iter() {
        if *n > 1 {
            o.problems.push(("request-executed-more-than-once".into(), json!({"request": id, "handler_invocations": n})));
        }
    }
    let ft = fault_times.lock().unwrap();
    o.fault_events = ft.len() as u64;
    let sp = spans.lock().unwrap();
    o.faults_overlapping_requests = ft.iter().filter(|t| sp.iter().any(|(a, b)| a <= *t && *t <= b)).count() as u64;
    o
}

fn plan_json(p: &Plan) -> Value {
    json!({"servers": p.servers,
        "clients": p.clients.iter().map(|(t, r)| json!({"timeout_ms": t, "requests": r.iter().map(|q| json!({"id": q.id, "server": q.server, "handler_delay_ms": q.delay_ms, "reply_len": q.reply_len, "gap_ms": q.gap_ms, "concurrent": q.concurrent, "self_fault": q.self_fault})).collect::<Vec<_>>()})).collect::<Vec<_>>(),
        "nemesis": p.nemesis.iter().map(|(w, a, c, s)| json!({"after_ms": w, "action": (["partition", "repair", "hold", "release"][*a as usize]), "client": c, "server": s})).collect::<Vec<_>>()})
}

fn child(args: &Args) {
    // first panic location of each simulation goes to stderr for the parent
    std::panic::set_hook(Box::new(|i| {
        let l = i.location().map(|l| format!("{}:{}", l.file(), l.line())).unwrap_or_default();
        eprintln!("PANICLOC {l} :: {}", i.payload().downcast_ref::<String>().cloned().or_else(|| i.payload().downcast_ref::<&str>().map(|s| s.to_string())).unwrap_or_default());
    }));
    let (from, to) = (args.opt_u64("from", 0), args.opt_u64("to", 0));
    let path = args.opt_str("lines").expect("--lines").to_string();
    let mut f = std::fs::OpenOptions::new().create(true).append(true).open(&path).expect("open lines file");
    for idx in from..to {
        eprintln!("SIMSTART {idx}");
        let res = std::panic::catch_unwind(|| run_sim(args.seed, idx));
        let line = match res {
            Ok(o) => json!({"idx": idx, "problems": o.problems.iter().map(|(w, d)| json!([w, d])).collect::<Vec<_>>(), "ok": o.ok, "conn_err": o.conn_err, "timeouts": o.timeouts,
                "hung": o.hung_without_timeout, "requests": o.requests, "by_value": o.by_value, "fault_events": o.fault_events, "faults_overlapping": o.faults_overlapping_requests, "sim_error": o.sim_error}),
            Err(_) => json!({"idx": idx, "panicked": true}),
        };
        writeln!(f, "{line}").unwrap();
        f.flush().unwrap();
    }
}

fn classify_panic(stderr: &str, idx: u64) -> (bool, String) {
    // lines after the last "SIMSTART idx"
    let marker = format!("SIMSTART {idx}");
    let tail = stderr.rsplit(&marker).next().unwrap_or("");
    let first = tail.lines().find(|l| l.starts_with("PANICLOC")).unwrap_or("").to_string();
    let in_repo = first.contains("/repo/");
    (in_repo, first)
}

fn parent(args: &Args) {
    let mut report = Report::new(
        args,
        "E4-turmoil",
        "one simulation = datacake-rpc built with its own `simulation` feature inside turmoil (seeded RNG for schedule and latency): 1-2 servers, 1-3 clients (timeout 2 s / 5 s / none), 3-13 requests per client, sequential and concurrent on one channel including concurrent FIRST use of a lazily connected channel, handler latency 0-3 s, replies 8-100 B, handlers that cut or hold their own link just before replying, and a nemesis task playing 0-8 partition / repair / hold / release events at generated simulated instants; the network heals at the end. History checker per request (unique id, send and completion time in simulated ms): Ok reply carries that request's id and the payload the handler computes for it; handler invocations per id <= 1; every error code is ConnectionError or Timeout; with a timeout T the answer arrives within T (+ one tick). A panic whose first location is under /repo is a violation; inside turmoil/h2/hyper only: that simulation is inconclusive. Non-trivial = a fault event overlapped an in-flight request; distinct = distinct simulations (seed, index).",
    );
    let exe = std::env::current_exe().unwrap();
    let dir = scratch_dir("c14");
    if let Some(path) = &args.replay {
        let r = read_replay(path);
        let idx = r["index"].as_u64().unwrap();
        let seed = r["seed"].as_u64().unwrap();
        let lines = dir.join("replay.jsonl");
        let outp = std::process::Command::new(&exe).args(["child", "--seed", &seed.to_string(), "--from", &idx.to_string(), "--to", &(idx + 1).to_string(), "--lines"]).arg(&lines).output().unwrap();
        let text = std::fs::read_to_string(&lines).unwrap_or_default();
        absorb_lines(&mut report, &text, seed, &String::from_utf8_lossy(&outp.stderr));
        if !outp.status.success() {
            let (in_repo, loc) = classify_panic(&String::from_utf8_lossy(&outp.stderr), idx);
            if in_repo {
                report.add_violation(Violation { signature: format!("C14:panic-in-datacake-rpc:{}", short_loc(&loc)), detail: json!({"simulation": idx, "first_panic": loc}) }, Some(json!({"seed": seed, "index": idx})));
            }
        }
        let _ = std::fs::remove_dir_all(&dir);
        report.finish(args);
        return;
    }
    let total = args.pick(2_400, 400_000);
    let workers = args.threads.max(1) as u64;
    let per = (total + workers - 1) / workers;
    let seed = args.seed;
    let budget = Duration::from_secs(args.pick(240, 3_000));
    let t0 = std::time::Instant::now();
    let results: Vec<(String, Vec<(u64, bool, String)>, Option<String>)> = std::thread::scope(|s| {
        let mut hs = Vec::new();
        for w in 0..workers {
            let exe = exe.clone();
            let dir = dir.clone();
            hs.push(s.spawn(move || {
                let (mut from, to) = (w * per, ((w + 1) * per).min(total));
                let lines = dir.join(format!("lines-{w}.jsonl"));
                let mut crashes = Vec::new();
                let mut note = None;
                while from < to {
                    if t0.elapsed() > budget {
                        note = Some(format!("wall-clock budget reached at simulation {from} of {to}"));
                        break;
                    }
                    let chunk_to = (from + 50).min(to);
                    let outp = std::process::Command::new(&exe)
                        .args(["child", "--seed", &seed.to_string(), "--from", &from.to_string(), "--to", &chunk_to.to_string(), "--lines"])
                        .arg(&lines)
                        .output();
                    let Ok(outp) = outp else { note = Some("cannot spawn child".into()); break };
                    let text = std::fs::read_to_string(&lines).unwrap_or_default();
                    let done: u64 = text.lines().filter_map(|l| serde_json::from_str::<Value>(l).ok()).filter_map(|v| v["idx"].as_u64()).filter(|i| *i >= from && *i < chunk_to).count() as u64;
                    let stderr = String::from_utf8_lossy(&outp.stderr).to_string();
                    // panics that were caught inside the child
                    for l in text.lines().filter_map(|l| serde_json::from_str::<Value>(l).ok()) {
                        if l["panicked"] == true {
                            let idx = l["idx"].as_u64().unwrap();
                            if idx >= from && idx < chunk_to {
                                let (in_repo, loc) = classify_panic(&stderr, idx);
                                crashes.push((idx, in_repo, loc));
                            }
                        }
                    }
                    if outp.status.success() {
                        from = chunk_to;
                    } else {
                        // the child died while running simulation from + done
                        let culprit = from + done;
                        let (in_repo, loc) = classify_panic(&stderr, culprit);
                        crashes.push((culprit, in_repo, if loc.is_empty() { format!("process died: {:?}", outp.status) } else { loc }));
                        from = culprit + 1;
                    }
                }
                (std::fs::read_to_string(&lines).unwrap_or_default(), crashes, note)
            }));
        }
        hs.into_iter().map(|h| h.join().unwrap()).collect()
    });
    for (text, crashes, note) in results {
        absorb_lines(&mut report, &text, seed, "");
        for (idx, in_repo, loc) in crashes {
            report.count("simulations_that_panicked", 1);
            if in_repo {
                report.add_violation(
                    Violation { signature: format!("C14:panic-in-datacake-rpc:{}", short_loc(&loc)), detail: json!({"simulation": idx, "first_panic": loc, "plan": plan_json(&gen_plan(seed, idx))}) },
                    Some(json!({"seed": seed, "index": idx})),
                );
            } else {
                report.inconclusive_count += 1;
                if report.inconclusive.len() < 5 {
                    report.inconclusive.push(format!("simulation {idx}: panic outside datacake ({loc})"));
                }
            }
        }
        if let Some(n) = note {
            report.extra.insert("watchdog".into(), json!(n));
        }
    }
    let _ = std::fs::remove_dir_all(&dir);
    report.samples.push(json!({"simulation": 0, "plan": plan_json(&gen_plan(seed, 0))}));
    report.floor("simulations", 500);
    report.floor("replies_checked", 2_000);
    report.floor("fault_events_overlapping_a_request", 200);
    report.finish(args);
}

fn short_loc(loc: &str) -> String {
    // "PANICLOC /repo/datacake-rpc/src/net/simulation.rs:64 :: msg" -> "net/simulation.rs"
    let p = loc.trim_start_matches("PANICLOC ").split(" :: ").next().unwrap_or("");
    let file = p.rsplit("/src/").next().unwrap_or(p);
    file.split(':').next().unwrap_or(file).to_string()
}

fn absorb_lines(report: &mut Report, text: &str, seed: u64, _stderr: &str) {
    for l in text.lines() {
        let Ok(v) = serde_json::from_str::<Value>(l) else { continue };
        let Some(idx) = v["idx"].as_u64() else { continue };
        if v["panicked"] == true {
            continue;
        }
        let mut out = CaseOut::default();
        out.count("simulations", 1);
        out.count("requests", v["requests"].as_u64().unwrap_or(0));
        out.count("requests_sent_by_value_(send_owned)", v["by_value"].as_u64().unwrap_or(0));
        out.count("replies_checked", v["ok"].as_u64().unwrap_or(0));
        out.count("connection_errors", v["conn_err"].as_u64().unwrap_or(0));
        out.count("timeouts", v["timeouts"].as_u64().unwrap_or(0));
        out.count("no_answer_without_timeout", v["hung"].as_u64().unwrap_or(0));
        out.count("fault_events", v["fault_events"].as_u64().unwrap_or(0));
        out.count("fault_events_overlapping_a_request", v["faults_overlapping"].as_u64().unwrap_or(0));
        if v["faults_overlapping"].as_u64().unwrap_or(0) > 0 {
            out.nontrivial = Some(hash_of(&(seed, idx)));
        }
        if let Some(e) = v["sim_error"].as_str() {
            out.count("simulations_not_completed", 1);
            let _ = e;
        }
        for p in v["problems"].as_array().cloned().unwrap_or_default() {
            out.violate(format!("C14:{}", p[0].as_str().unwrap_or("?")), json!({"simulation": idx, "what": p[1], "plan": plan_json(&gen_plan(seed, idx))}));
        }
        if !out.violations.is_empty() {
            out.replay = Some(json!({"seed": seed, "index": idx}));
        }
        report.absorb(out);
    }
}

fn main() {
    let args = Args::parse();
    match args.prop.as_str() {
        "child" => child(&args),
        "C14" => parent(&args),
        _ => {
            eprintln!("usage: simrpc C14 ...");
            std::process::exit(2);
        },
    }
}
