#!/bin/bash
# Builds the verification harness offline from files on disk (run once after a fresh restore).
set -e
export CARGO_NET_OFFLINE=true
cd /verif/harness
cp /repo/Cargo.lock Cargo.lock 2>/dev/null || true
cargo build -q -p mon
echo "setup ok"
