#!/bin/bash
# Builds the verification harness offline from files on disk (run once after a fresh restore).
set -e
export CARGO_NET_OFFLINE=true
cd /verif/harness
cargo build -q -p mon
cargo build -q --release -p mon
(cd /verif/harness-sim && cargo build -q)
echo "setup ok"
